#!/bin/sh
# usage: confirm_seeded.sh <seeded id>
# In a scratch worktree of /repo: the change applies, the repository's own test
# suite still passes with it (only the 7 offline URL tests may fail), and - where
# a demo.py exists - the demo exits 0 on the original tree and 1 with the change.
# Writes /verif/seeded/<id>/confirmed.json.  Never touches /repo itself.
set -u
id="$1"; d="/verif/seeded/$id"
wt="/dev/shm/verif-confirm-$id"
rm -rf "$wt"; git -C /repo worktree prune
git -C /repo worktree add --detach -q "$wt" HEAD >/dev/null 2>&1 || { echo "$id: cannot create worktree"; exit 3; }
cleanup() { git -C /repo worktree remove --force "$wt" >/dev/null 2>&1; rm -rf "$wt"; }
trap cleanup EXIT
demo_orig=NA; demo_patched=NA
if [ -f "$d/demo.py" ]; then
  (cd "$wt" && PYTHONPATH="$wt/src" timeout 900 /venv/bin/python "$d/demo.py" >/dev/null 2>&1); demo_orig=$?
fi
git -C "$wt" apply "$d/patch.diff" || { echo "$id: patch does not apply"; exit 3; }
if [ -f "$d/demo.py" ]; then
  (cd "$wt" && PYTHONPATH="$wt/src" timeout 900 /venv/bin/python "$d/demo.py" >/dev/null 2>&1); demo_patched=$?
fi
(cd "$wt" && PYTHONPATH="$wt/src" timeout 3000 /venv/bin/python -m pytest -q -p no:cacheprovider --timeout=900 -x --deselect tests/test_app/test_evo.py::test_get_app_tree_is_url --deselect tests/test_parse/test_sequence.py::test_line_based_url --deselect "tests/test_util/test_io.py::test_open_url" --deselect tests/test_util/test_io.py::test_open_url_compressed tests > "$wt/pytest.log" 2>&1); trc=$?
summary=$(tail -1 "$wt/pytest.log" | tr -d '=' | sed 's/^ *//;s/ *$//')
imported=$(cd "$wt" && PYTHONPATH="$wt/src" /venv/bin/python -c "import cogent3; print(cogent3.__file__)" 2>/dev/null | tail -1)
cat > "$d/confirmed.json" <<EOJ
{"id": "$id", "applies_to_repo_head": "$(git -C /repo log --format=%h -1)", "imported_from": "$imported",
 "demo_exit_on_original": "$demo_orig", "demo_exit_with_change": "$demo_patched",
 "suite_exit": $trc, "suite_summary": "$summary",
 "suite_cmd": "pytest -q -p no:cacheprovider -x tests (serial, the 7 offline URL tests deselected)"}
EOJ
echo "$id demo_orig=$demo_orig demo_patched=$demo_patched suite_rc=$trc $summary"
