#!/bin/sh
# usage: benign_run.sh <benign id> <property> [check args]
# A behaviour-preserving refactoring of cogent3 (benign/<id>/patch.diff) is applied to a
# scratch worktree; the registered check must stay quiet (exit 0, no VIOLATION line).
set -u
id="$1"; prop="$2"; shift 2
wt="/dev/shm/verif-benign-$$"
git -C /repo worktree add --detach -q "$wt" HEAD >/dev/null 2>&1 || { echo "cannot create worktree"; exit 3; }
trap 'git -C /repo worktree remove --force "$wt" >/dev/null 2>&1; rm -rf "$wt"' EXIT
git -C "$wt" apply "/verif/benign/$id/patch.diff" || { echo "$id: patch does not apply"; exit 3; }
out=$(VERIF_REPO="$wt" VERIF_EVIDENCE_DIR="$wt/evidence" VERIF_REPLAY_DIR="$wt/replays" /verif/check "$prop" "$@" 2>&1)
rc=$?
echo "$out" | grep -E "^(VIOLATION|HARNESS-ERROR|  class=|C[0-9]+ tier)" | cut -c1-400 | head -12
echo "$out" | grep -q "cogent3 under test: $wt/src/cogent3" || { echo "HARNESS-ERROR not the worktree"; exit 2; }
if [ $rc -eq 0 ]; then echo "QUIET $id $prop"; else echo "ALARM rc=$rc $id $prop"; echo "$out" | grep -A3 "detail\|VIOLATION" | head -20; fi
exit $rc
