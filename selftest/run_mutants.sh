#!/bin/sh
# runs every seeded change under /verif/seeded against the check of the
# property it breaks (scratch worktrees only); appends to selftest/mutants_result.txt
cd /verif
out=${MUTANTS_OUT:-/verif/selftest/mutants_result.last.txt}
: > "$out.tmp"
for d in /verif/seeded/*/; do
  n=$(basename "$d")
  case "$n" in $1*) ;; *) [ -n "$1" ] && continue ;; esac
  prop=$(/venv/bin/python -c "import json,sys; print(json.load(open('$d/meta.json'))['property'])" 2>/dev/null | tail -1)
  [ -z "$prop" ] && continue
  if grep -q '"obsolete"' "$d/meta.json"; then echo "$n $prop OBSOLETE" | tee -a "$out.tmp"; continue; fi
  t0=$(date +%s)
  res=$(KEEP_REPLAY="$d" /verif/selftest/mutant_run.sh "$d/patch.diff" "$prop" 2>&1 | grep -v conda)
  verdict=$(echo "$res" | grep -E "^(DETECTED|MISSED|HARNESS-ERROR)" | cut -d' ' -f1)
  cls=$(echo "$res" | grep "class=" | head -3 | sed 's/ *class=//' | tr '\n' ';')
  rp=$(echo "$res" | grep "^REPLAY" | head -1)
  echo "$n $prop $verdict $(( $(date +%s) - t0 ))s $cls $rp" | tee -a "$out.tmp"
done
mv "$out.tmp" "$out"
