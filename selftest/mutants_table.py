#!/venv/bin/python
"""rewrites the seeded-changes table of DESIGN.md (between the two markers)
from seeded/*/meta.json, seeded/*/confirmed.json, selftest/mutants_result.txt
and selftest/first_attempt_notes.json"""
import json, os, re
V = "/verif"
res = {}
for line in open(f"{V}/selftest/mutants_result.txt"):
    parts = line.rstrip("\n").split(" ", 4)
    if len(parts) >= 3:
        res[parts[0]] = (parts[1], parts[2], parts[4] if len(parts) > 4 else "")
notes = json.load(open(f"{V}/selftest/first_attempt_notes.json"))
rows = []
for d in sorted(os.listdir(f"{V}/seeded")):
    meta = json.load(open(f"{V}/seeded/{d}/meta.json"))
    prop, verdict, classes = res.get(d, (meta["property"], "not run", ""))
    if meta.get("obsolete"):
        verdict = "obsolete"
    classes = classes.split(" REPLAY")[0]
    cls = [re.sub(r" count=\d+", "", c) for c in classes.split(";") if c.strip()][:2]
    summ = meta["summary"].replace("|", "/")
    summ = re.sub(r"^re-introduces the defect repaired by /repo commit (\w+): ", r"reverse of fix \1: ", summ)
    conf = ""
    cp = f"{V}/seeded/{d}/confirmed.json"
    if os.path.exists(cp):
        c = json.load(open(cp))
        ok = c["suite_exit"] == 0 and (c["demo_exit_on_original"] in ("0", "NA")) and (c["demo_exit_with_change"] in ("1", "NA"))
        conf = "suite+demo ok" if ok and c["demo_exit_on_original"] == "0" else "suite ok" if ok else "NOT CONFIRMED"
    short = d.split("-revert-")[0] if d.startswith("R") else d
    rows.append("| " + " | ".join([short, prop, verdict, conf, summ[:260], meta.get("needs", "").replace("|", "/")[:220],
                                  "; ".join(f"`{c}`" for c in cls), (meta.get("obsolete") or notes.get(d, "detected"))]) + " |")
header = ("| id | check | verdict | confirmed | change | needs to manifest | example violation classes reported | first attempt / what it took |\n"
          "|---|---|---|---|---|---|---|---|\n")
table = header + "\n".join(rows) + "\n"
s = open(f"{V}/DESIGN.md").read()
b, e = "<!-- seeded-table-begin -->\n", "<!-- seeded-table-end -->\n"
if b in s:
    s = s[: s.index(b) + len(b)] + table + s[s.index(e):]
else:
    old_start = s.index("| id | check | verdict | change |")
    old_end = s.index("\n## 11. Corrections made")
    s = s[:old_start] + b + table + e + s[old_end:]
open(f"{V}/DESIGN.md", "w").write(s)
n = len(rows); det = sum(1 for r in rows if "| DETECTED |" in r); obs = sum(1 for r in rows if "| obsolete |" in r)
print(f"{n} seeded changes, {det} detected, {obs} obsolete")
