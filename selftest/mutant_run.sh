#!/bin/sh
# usage: mutant_run.sh <patch.diff | revert:<commit>> <property> [extra check args...]
# Applies the change to a scratch worktree of /repo (never to /repo itself),
# runs the registered check against it via VERIF_REPO, removes the worktree.
# Prints DETECTED / MISSED / HARNESS-ERROR; exit status 0 iff detected.
set -u
spec="$1"; prop="$2"; shift 2
wt="/dev/shm/verif-mut-$$"
git -C /repo worktree add --detach -q "$wt" HEAD >/dev/null 2>&1 || { echo "cannot create worktree"; exit 3; }
cleanup() { git -C /repo worktree remove --force "$wt" >/dev/null 2>&1; rm -rf "$wt"; }
trap cleanup EXIT
case "$spec" in
  revert:*) c="${spec#revert:}"; git -C /repo show "$c" -- src | git -C "$wt" apply -R || { echo "cannot revert $c"; exit 3; } ;;
  *) git -C "$wt" apply "$spec" || { echo "patch does not apply"; exit 3; } ;;
esac
out=$(VERIF_REPO="$wt" VERIF_EVIDENCE_DIR="$wt/evidence" VERIF_REPLAY_DIR="$wt/replays" /verif/check "$prop" "$@" 2>&1)
rc=$?
echo "$out" | grep -E "^(VIOLATION|KNOWN-FINDING|HARNESS-ERROR|  class=|C[0-9]+ tier)" | cut -c1-300 | head -20
if ! echo "$out" | grep -q "cogent3 under test: $wt/src/cogent3"; then
  echo "HARNESS-ERROR the check did not import cogent3 from the scratch worktree"; echo "$out" | tail -5; exit 2
fi
if [ -n "${KEEP_REPLAY:-}" ] && [ $rc -eq 1 ]; then
  # keep the first minimised replay as the change's demonstration, and check that
  # it fails on the changed tree and passes on the unchanged one
  first=$(echo "$out" | grep -m1 "^VIOLATION" | sed 's/.*replay=//')
  if [ -f "$first" ]; then
    cp "$first" "$KEEP_REPLAY/replay.json"
    VERIF_REPO="$wt" /verif/check "$prop" --replay "$KEEP_REPLAY/replay.json" --quiet >/dev/null 2>&1; r_changed=$?
    /verif/check "$prop" --replay "$KEEP_REPLAY/replay.json" --quiet >/dev/null 2>&1; r_orig=$?
    echo "{\"replay_exit_with_change\": $r_changed, \"replay_exit_on_unchanged_tree\": $r_orig, \"cmd\": \"/verif/check $prop --replay replay.json\"}" > "$KEEP_REPLAY/replay_confirmed.json"
    echo "REPLAY with_change=$r_changed unchanged=$r_orig"
  fi
fi
case $rc in
  1) echo "DETECTED $spec by $prop"; exit 0 ;;
  0) echo "MISSED $spec by $prop"; exit 1 ;;
  *) echo "HARNESS-ERROR rc=$rc $spec by $prop"; echo "$out" | tail -20; exit 2 ;;
esac
