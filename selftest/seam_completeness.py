#!/venv/bin/python
"""seam completeness self-test: a fault-free write must leave the same
destination content and the same directory entries whether or not the
file-system seams are installed (the seams must be transparent), and every
mutating call the write makes must have been seen by the gate (the sandbox
tree after the run is fully explained by the logged events)."""
import os, sys
sys.path.insert(0, "/verif/sim")
import simos
simos.install_hooks()
import core, c19a

n = int(sys.argv[1]) if len(sys.argv) > 1 else 300
bad = checked = 0
for i in range(n):
    plan = c19a.gen(core.make_rng(99, "c19a", i), "quick", i)
    if plan["fail"]:
        continue
    sc = c19a.Scenario(plan, "quick")
    try:
        # with seams
        sim, outcome, exc = sc.execute({})
        with_tree = simos.snapshot_tree(sc.root)
        # without seams
        sc.reset()
        try:
            sc.writer(sc.dest)
            out2 = "returned"
        except Exception:
            out2 = "raised"
        without_tree = simos.snapshot_tree(sc.root)
        checked += 1
        def canon(tree):
            out = {}
            for k, v in tree.items():
                if k == sc.dest_name and v is not None:
                    try:
                        v = c19a.canon(sc.dest_name, v)
                        if sc.dest_name.endswith(".zip"):
                            # member names can be derived from (random) temp names
                            v = sorted(content for _name, content in v)
                    except Exception:
                        pass
                out[k] = v
            return out
        if outcome != out2 or canon(with_tree) != canon(without_tree):
            bad += 1
            print("DIFFERENT with/without seams:", c19a.describe(plan), outcome, out2,
                  sorted(with_tree), sorted(without_tree))
        # every created/removed entry must be explained by a gated event
        touched = set()
        for idx, kind, rel, size, tag in sim.events:
            for part in rel.split("->"):
                touched.add(part)
        changed = {k for k in set(with_tree) | set(sc.pre_tree) if with_tree.get(k, "absent") != sc.pre_tree.get(k, "absent")}
        unexplained = {k for k in changed if k not in touched}
        if unexplained:
            bad += 1
            print("UNEXPLAINED change (a write went around the gate):", c19a.describe(plan), unexplained)
    finally:
        sc.close()
print(f"seam completeness: scenarios={checked} problems={bad}")
sys.exit(1 if bad else 0)
