#!/venv/bin/python
"""reach of the simulated runs into the code the properties are anchored in:
runs a few hundred plans of every engine in-process under coverage.py and
reports, per anchored function, the fraction of its lines that executed.
Writes selftest/anchor_coverage.json.  (Evidence of reach, not a check.)"""
import ast, json, os, sys, warnings
sys.path.insert(0, "/verif/sim")
import simos
simos.install_hooks()
import coverage

SRC = os.path.join(os.environ.get("VERIF_REPO", "/repo"), "src", "cogent3")
ANCHORS = {
    "util/io.py": ["atomic_write.__init__", "atomic_write._make_tmppath", "atomic_write._get_fileobj", "atomic_write._close_rename_standard",
                   "atomic_write._close_rename_zip", "atomic_write.__exit__", "open_zip"],
    "format/alignment.py": ["save_to_filename", "write_alignment_to_file"],
    "util/table.py": ["Table.write"],
    "app/data_store.py": ["DataStoreABC._check_writable", "DataStoreDirectory.__contains__", "DataStoreDirectory.drop_not_completed",
                          "DataStoreDirectory.completed", "DataStoreDirectory.not_completed", "DataStoreDirectory._write",
                          "DataStoreDirectory.write", "DataStoreDirectory.write_not_completed", "DataStoreDirectory.md5", "DataStoreABC.validate"],
    "app/sqlite_data_store.py": ["DataStoreSqlite._write", "DataStoreSqlite.write", "DataStoreSqlite.write_not_completed",
                                 "DataStoreSqlite.drop_not_completed", "DataStoreSqlite.lock", "DataStoreSqlite.unlock", "DataStoreSqlite.db"],
    "app/composable.py": ["_call", "_validate_data_type", "_proxy_input", "_source_wrapped", "_as_completed", "_apply_to", "source_proxy.__getstate__"],
    "util/parallel.py": ["_as_completed_mproc", "as_completed"],
    "recalculation/calculation.py": ["Calculator.change", "Calculator.cells_changed_by", "Calculator.plain_update", "Calculator.tracing_update", "Calculator.optimise"],
    "recalculation/scope.py": ["ParameterController.updates_postponed", "ParameterController._updateIntermediateValues",
                               "ParameterController.update_from_calculator", "ParameterController.optimise"],
    "recalculation/definition.py": ["_InputDefn.get_param_rules", "_InputDefn.update_from_calculator"],
    "evolve/parameter_controller.py": ["AlignmentLikelihoodFunction.apply_param_rules" if False else "_LikelihoodParameterController.apply_param_rules",
                                        "_LikelihoodParameterController.set_param_rule"],
    "evolve/likelihood_function.py": ["update_scoped_rules", "_get_param_mapping", "_ParamProjection.update_param_rules",
                                      "_ParamProjection._rate_not_same", "LikelihoodFunction.initialise_from_nested"],
    "maths/optimisers.py": ["limited_use", "bounded_function", "bounds_exception_catching_function", "maximise"],
    "app/evo.py": ["model._configure_lf", "_InitFrom.__call__", "_ModelCollectionBase._initialised_alt", "_ModelCollectionBase.main"],
}

def func_lines(path):
    tree = ast.parse(open(path).read())
    out = {}
    def visit(node, prefix=""):
        for ch in ast.iter_child_nodes(node):
            if isinstance(ch, (ast.FunctionDef, ast.AsyncFunctionDef)):
                body = [n for n in ast.walk(ch) if hasattr(n, "lineno") and isinstance(n, ast.stmt)]
                out[prefix + ch.name] = sorted({n.lineno for n in body if n is not ch})
                visit(ch, prefix + ch.name + ".")
            elif isinstance(ch, ast.ClassDef):
                visit(ch, prefix + ch.name + ".")
    visit(tree)
    return out

warnings.simplefilter("ignore")
cov = coverage.Coverage(include=[os.path.join(SRC, f) for f in ANCHORS], data_file=None)
cov.start()
import core, c19a, c19b, c13, c14, c07, c16
import io, contextlib
budget = {"c19a": 120, "c19b": 6, "c13": 400, "c14": 200, "c07": 150, "c16": 60}
with contextlib.redirect_stdout(io.StringIO()):
    for eng, n in ((c19a, budget["c19a"]), (c19b, budget["c19b"]), (c13, budget["c13"]), (c14, budget["c14"]),
                   (c07, budget["c07"]), (c16, budget["c16"])):
        name = eng.__name__
        for i in range(n):
            plan = eng.gen(core.make_rng(7, name, i), "quick", i)
            eng.run(plan, "quick")
cov.stop()
data = cov.get_data()
report = {}
for rel, funcs in ANCHORS.items():
    path = os.path.join(SRC, rel)
    executed = set(data.lines(path) or [])
    fl = func_lines(path)
    for fn in funcs:
        lines = fl.get(fn)
        if lines is None:
            report[f"{rel}:{fn}"] = "not found"
            continue
        # only lines coverage.py considers executable
        hit = [ln for ln in lines if ln in executed]
        report[f"{rel}:{fn}"] = {"statement_lines": len(lines), "executed": len(hit),
                                 "fraction": round(len(hit) / max(1, len(lines)), 2)}
json.dump({"runs": budget, "functions": report}, open("/verif/selftest/anchor_coverage.json", "w"), indent=1)
for k, v in report.items():
    print(k, v)
