"""compare a junit xml of the repository's suite with the stable-pass set of /root/.vp/BASELINE.json"""
import json, sys
import xml.etree.ElementTree as ET

base = json.load(open("/root/.vp/BASELINE.json"))
stable = set(base["stable_pass"])
tree = ET.parse(sys.argv[1])
status = {}
for tc in tree.iter("testcase"):
    name = f"{tc.get('classname')}::{tc.get('name')}"
    bad = any(ch.tag in ("failure", "error") for ch in tc)
    skipped = any(ch.tag == "skipped" for ch in tc)
    status[name] = "fail" if bad else "skip" if skipped else "pass"
missing = sorted(n for n in stable if n not in status)
notpass = sorted(n for n in stable if status.get(n) not in ("pass",) and n in status)
print(f"stable_pass={len(stable)} ran={len(status)} missing={len(missing)} not_passing={len(notpass)}")
for n in (missing + notpass)[:20]:
    print("  ", n, status.get(n))
sys.exit(1 if missing or notpass else 0)
