#!/venv/bin/python
"""stub-fidelity cross-check (not deciding): the C14 oracle must also hold when
the same plans run on the REAL loky pool (2-4 worker processes).  An
infrastructure failure is reported as skipped, never as a violation."""
import os, sys, time
sys.path.insert(0, "/verif/sim")
os.environ.setdefault("PYTHONPATH", "/repo/src:/verif/sim")
import core, c14

n = int(sys.argv[1]) if len(sys.argv) > 1 else 24
done = skipped = bad = 0
t0 = time.time()
i = 0
while done + skipped < n and i < 10 * n:
    plan = c14.gen(core.make_rng(12345, "c14", i), "quick", i)
    i += 1
    if not plan["parallel"] or len(plan["inputs"]) < 3:
        continue
    plan["max_workers"] = 2 + (i % 3)
    try:
        res = c14.run(plan, "quick", real_pool=True)
    except Exception as e:  # infrastructure
        skipped += 1
        print("skipped:", type(e).__name__, str(e)[:100])
        continue
    done += 1
    for v in res.violations:
        bad += 1
        print("ORACLE FAILED ON REAL LOKY:", v.cls, v.detail[:300])
print(f"real-loky runs={done} skipped={skipped} oracle_failures={bad} wall={time.time()-t0:.1f}s")
sys.exit(1 if bad else 0)
