#!/venv/bin/python
"""determinism self-test: the same (seed, run index, hash seed) must give the
same event digest - twice in a row, at another shard count (4 vs 16 fresh
interpreters) and, separately, we report what changes under another
PYTHONHASHSEED.  usage: determinism.py [property ...] [--runs N]"""
import json, os, subprocess, sys, tempfile

args = [a for a in sys.argv[1:] if not a.startswith("--")]
runs = None
for a in sys.argv[1:]:
    if a.startswith("--runs="):
        runs = int(a.split("=")[1])
props = args or ["C19", "C13", "C14", "C07", "C16"]
default_runs = {"C19": 160, "C13": 1600, "C14": 800, "C07": 800, "C16": 240}
bad = 0
for p in props:
    n = runs or default_runs[p]
    outs = {}
    for label, extra in (("A16", ["--shards", "16"]), ("B16", ["--shards", "16"]), ("C4", ["--shards", "4"]),
                         ("H7", ["--shards", "16", "--hashseed", "7"]), ("H7b", ["--shards", "8", "--hashseed", "7"])):
        f = tempfile.mktemp(suffix=".json")
        env = dict(os.environ, VERIF_EVIDENCE_DIR=tempfile.mkdtemp(), VERIF_REPLAY_DIR=tempfile.mkdtemp())
        cmd = ["/verif/check", p, "--runs", str(n), "--budget", "3000", "--digests", f, "--survey"] + extra
        r = subprocess.run(cmd, env=env, capture_output=True, text=True)
        if r.returncode not in (0, 1):
            print(p, label, "harness error", r.stdout[-500:], r.stderr[-1500:])
            bad += 1
            continue
        outs[label] = json.load(open(f))
        os.unlink(f)
    def cmp(a, b):
        diffs = 0
        total = 0
        for en in outs[a]:
            for k, v in outs[a][en].items():
                total += 1
                if outs[b][en].get(k) != v:
                    diffs += 1
        return diffs, total
    for a, b, must in (("A16", "B16", True), ("A16", "C4", True), ("H7", "H7b", True), ("A16", "H7", False)):
        if a in outs and b in outs:
            d, t = cmp(a, b)
            flag = "OK" if d == 0 else ("FAIL" if must else "differs-across-hashseeds")
            print(f"{p}: {a} vs {b}: {d} of {t} run digests differ  [{flag}]")
            if d and must:
                bad += 1
sys.exit(1 if bad else 0)
