"""C19-B: an interrupted apply_to run resumes to the same store.

Scenario = inputs + composition + output store (directory or SQLite) +
serial / simulated-parallel execution, as in C14.  A fault-free reference run
records the T gated calls (file-system calls and SQL statements) made from the
moment the output store is opened until apply_to returns.  Then, for every
call index k: run to k, kill, restart (drop every object, new pid), open the
store in append mode (the documented resume idiom) and run apply_to on the
same inputs to completion.  The resumed store must equal the reference store
(completed ids and contents, not-completed ids and type/origin/source, md5
validity), inputs whose completed record survived the crash must not be
processed again, and one resume pass must finish every input.  The thorough
tier also injects OSError at each k and kills the resume run as well
(sequences of up to three crashes).
"""

from __future__ import annotations

import hashlib
import os

import c14
import simexec
import simos
import simsql
from core import Choices, RunResult


def gen(rng, tier, index):
    plan = c14.gen(rng, tier, index)
    plan["engine"] = "c19b"
    plan["mode"] = "apply_to"
    plan["out_mode"] = "w"
    plan["idclass"] = "plain"
    if plan["input_form"] == "objects":
        plan["input_form"] = "paths"
    plan["preexisting"] = []
    plan["inputs"] = [i for i in plan["inputs"] if "." not in i["stem"]][:5]
    k = 0
    while len(plan["inputs"]) < 2:
        stem = f"pad{k}"
        k += 1
        if all(i["stem"] != stem for i in plan["inputs"]):
            plan["inputs"].append({"stem": stem, "kind": "good", "nseq": 2, "len": 12})
    stems = [i["stem"] for i in plan["inputs"]]
    if not plan["steps"]:
        plan["steps"] = [{"tag": "_1", "outcomes": {}}]
    for st in plan["steps"]:
        st["outcomes"] = {k: v for k, v in st["outcomes"].items() if k in stems and v not in ("wrong", "relabel")}
    plan["writer"] = ("seqs", "db", "json", "seqs")[index % 4]
    plan["logger"] = rng.random() < 0.25
    # no app that keeps state from the first record it sees: with one, a resumed run
    # (a new process, other first record) differs from the uninterrupted one for the
    # reason recorded as known finding C14-K1, which says nothing about resuming
    plan["take_n"] = 0
    # transient failures: these inputs fail in a first, complete pass and succeed in the
    # second pass (append mode) - the pass that is interrupted and resumed - so that the
    # retirement of failure records happens inside the interrupted run
    plan["flaky"] = []
    if rng.random() < 0.4:
        names = ["load_unaligned"] + (["min_length"] if plan["min_length"] else []) + ["p"] * len(plan["steps"]) + ["w"]
        for inp in plan["inputs"]:
            if c14.predict(plan, inp, names)[0] == "completed" and rng.random() < 0.6:
                plan["flaky"].append(inp["stem"])
    plan["faults"] = "enumerate"
    plan["errnos"] = rng.randint(0, 5)
    plan["second"] = [rng.randint(0, 60) for _ in range(4)]
    return plan


class World:
    """one sandbox with the input files; the store lives in <root>/out"""

    def __init__(self, plan):
        self.plan = plan
        self.root = simos.make_sandbox("c19b")
        self.in_dir = os.path.join(self.root, "in")
        os.mkdir(self.in_dir)
        for inp in plan["inputs"]:
            with open(os.path.join(self.in_dir, f"{inp['stem']}.fasta"), "w") as f:
                f.write(c14._input_text(inp))
        self.stems = [i["stem"] for i in plan["inputs"]]
        self.out_path = os.path.join(self.root, "out")
        self.pid = 5000

    def attempt(self, faults, mode, choices_offset=0, flaky=False):
        """one process lifetime: open store, apply_to.  Returns dict"""
        import copy

        import verif_apps

        plan = self.plan
        if flaky and plan.get("flaky"):
            plan = copy.deepcopy(plan)
            for stem in plan["flaky"]:
                plan["steps"][0]["outcomes"][stem] = "raise"
        sim = simos.SimOS(self.root, faults=faults, dir_order=plan["dir_order"],
                          name_salt=f"p{self.pid}")
        sql = simsql.SimSql(sim, pid=self.pid)
        pool = simexec.SimPool(Choices(plan["choices"][choices_offset:] + plan["choices"]),
                               cpu_count=plan["cpu_count"], durations=plan["durations"],
                               services=plan["services"])
        verif_apps.CALL_LOG.clear()
        outcome, exc = "returned", None
        simos.set_pid(self.pid)
        try:
            with sim, sql, pool:
                try:
                    from cogent3.app.io import open_data_store

                    out = c14.open_out(plan, self.out_path, mode)
                    app, _ = c14.build_app(plan, out, with_writer=True)
                    if plan["input_form"] == "dstore":
                        inputs = open_data_store(self.in_dir, suffix="fasta", mode="r")
                    else:
                        inputs = [os.path.join(self.in_dir, f"{s}.fasta") for s in self.stems]
                    par_kw = {"max_workers": plan["max_workers"]} if plan["max_workers"] is not None else None
                    app.apply_to(inputs, parallel=plan["parallel"], par_kw=par_kw,
                                 logger=None if plan["logger"] else False, show_progress=False)
                    if hasattr(out, "close"):
                        out.close()
                except simos.SimKill:
                    outcome = "killed"
                except simos.HarnessError:
                    raise
                except Exception as e:  # noqa: BLE001
                    outcome, exc = "raised", e
        finally:
            sql.close_all()
            sim.abandon()
            simos.set_pid(None)
        if sim.dead:
            outcome, exc = "killed", None
            sim.check_no_leak()
        self.pid += 1
        return {"sim": sim, "sql": sql, "pool": pool, "outcome": outcome, "exc": exc,
                "processed": list(verif_apps.CALL_LOG)}

    def view(self):
        """the store as a fresh read-only handle sees it"""
        plan = self.plan
        path = self.out_path if plan["writer"] != "db" else f"{self.out_path}.sqlitedb"
        if not os.path.exists(path):
            return {"records": {}, "dups": [], "validate": {}, "exists": False}
        sim = simos.SimOS(self.root, dir_order=plan["dir_order"])
        sql = simsql.SimSql(sim, pid=1)
        with sim, sql:
            try:
                ds = c14.open_out(plan, self.out_path, "r")
                recs, dups = c14.record_view(ds, plan)
                try:
                    val = {str(r[0]): r[1] for r in ds.validate().to_list()}
                except Exception as e:  # noqa: BLE001
                    val = {"error": f"{type(e).__name__}: {e}"}
                if hasattr(ds, "close"):
                    ds.close()
            except Exception as e:  # noqa: BLE001
                recs, dups, val = {}, [], {"error": f"open: {type(e).__name__}: {e}"}
            finally:
                sql.close_all()
        return {"records": recs, "dups": dups, "validate": val, "exists": True}

    def close(self):
        simos.remove_sandbox(self.root)


def summarise(view, plan):
    """comparable summary of a store view"""
    out = {}
    for key, (kind, content) in view["records"].items():
        if kind == "completed":
            c = c14.canon_completed(content, plan)
            out[key] = ("completed", hashlib.sha256(repr(c).encode()).hexdigest()[:16], str(content)[:50])
        else:
            t, o, s, _m = c14.nc_fields(content, plan)
            out[key] = ("nc", f"{t}|{o}|{s}", "")
    return out


def call_kind(ev):
    idx, kind, rel, size, tag = ev
    if kind == "sql":
        return f"sql:{rel.replace(' ', '_')}"
    name = rel.split("->")[-1]
    base = os.path.basename(name)
    parts = name.split("/")
    if "md5" in parts:
        role = "md5"
    elif "not_completed" in parts:
        role = "nc"
    elif "logs" in parts or base.endswith(".log"):
        role = "log"
    elif parts[0].startswith("tmp") or (len(parts) > 1 and parts[1].startswith("tmp")):
        role = "tmp"
    elif name in ("out", "out/not_completed", "out/md5", "out/logs"):
        role = "storedir"
    else:
        role = "record"
    return f"{kind}:{role}"


def run(plan, tier="quick") -> RunResult:
    res = RunResult()
    h = hashlib.sha256()
    be = "sqlite" if plan["writer"] == "db" else "dir"
    import cogent3.app.sqlite_data_store  # noqa: F401

    # ---- reference ----------------------------------------------------------
    two_pass = bool(plan.get("flaky"))
    first_mode = "a" if two_pass else "w"
    w = World(plan)
    try:
        if two_pass:
            w.attempt({}, "w", flaky=True)  # complete first pass with transient failures
            res.probe("two-pass-scenario")
        ref = w.attempt({}, first_mode)
        ref_view = w.view()
        ref_sum = summarise(ref_view, plan)
        ref_events = [e for e in ref["sim"].events if e[0] >= 0]
        res.executions += 1
        res.events += len(ref["sim"].events)
        h.update("\n".join(ref["sim"].event_lines(sizes=False)).encode())
    finally:
        w.close()
    if ref["outcome"] == "raised" and "non-unique identifier" in str(ref["exc"]):
        res.probe("duplicate-identifiers-refused")  # documented input validation
        return _finish(res, h, plan)
    if ref["outcome"] != "returned":
        res.add(f"C19.B.reference-raised/{be}:{type(ref['exc']).__name__}",
                f"uninterrupted apply_to raised {ref['exc']!r}", dict(plan, faults=[]))
        return _finish(res, h, plan)
    if set(ref_sum) != set(w.stems):
        # exactly-once accounting is C14's business; without a sound reference there is nothing to compare
        res.probe("reference-incomplete")
        return _finish(res, h, plan)
    v = ref_view["validate"]
    if v.get("Num md5sum incorrect") or v.get("Num md5sum missing"):
        res.add(f"C19.B.reference-invalid/{be}", f"uninterrupted run ends with validate()={v}", dict(plan, faults=[]))
        return _finish(res, h, plan)

    if plan["faults"] != "enumerate":
        seqs = [plan["faults"]]
    else:
        T = len(ref_events)
        seqs = [[{"index": e[0], "kind": "kill"}] for e in ref_events]
        if tier != "thorough":
            # a sample of error points (thorough: every call)
            for k in sorted({a % max(T, 1) for a in plan["second"]}):
                e = ref_events[k]
                names = simos.APPLICABLE_ERRNOS.get(e[1], ("ENOSPC", "EIO") if e[1] == "sql" else ())
                if names:
                    seqs.append([{"index": e[0], "kind": "oserror", "errno": names[plan["errnos"] % len(names)]}])
        if tier == "thorough":
            for e in ref_events:
                kind = e[1]
                names = simos.APPLICABLE_ERRNOS.get(kind, ("ENOSPC", "EIO") if kind == "sql" else ())
                if names:
                    seqs.append([{"index": e[0], "kind": "oserror", "errno": names[plan["errnos"] % len(names)]}])
            # crash the resume run too
            for a in plan["second"]:
                if T:
                    first = ref_events[a % T][0]
                    seqs.append([{"index": first, "kind": "kill"}, {"index": (a * 7) % max(T, 1), "kind": "kill"}])
                    seqs.append([{"index": first, "kind": "kill"}, {"index": (a * 3) % max(T, 1), "kind": "kill"},
                                 {"index": (a * 5) % max(T, 1), "kind": "kill"}])

    for seq in seqs:
        _crash_and_resume(plan, seq, ref_sum, ref_events, res, h, be)
    return _finish(res, h, plan)


def _crash_and_resume(plan, seq, ref_sum, ref_events, res, h, be):
    w = World(plan)
    labels = []
    try:
        mode = "w"
        if plan.get("flaky"):
            w.attempt({}, "w", flaky=True)
            mode = "a"
        crashed_views = []
        for n, fault in enumerate(seq):
            f = {fault["index"]: {k: v for k, v in fault.items() if k != "index"}}
            att = w.attempt(f, mode)
            res.executions += 1
            res.events += len(att["sim"].events)
            for k, c in att["sim"].fired.items():
                res.fault(k, c)
            fired = [e for e in att["sim"].events if e[4]]
            if not fired:
                # the run finished before reaching the fault: nothing was interrupted
                res.probe("fault-not-reached")
                break
            labels.append(f"{fault['kind']}@{call_kind(fired[0])}")
            if att["outcome"] == "killed":
                res.probe("kill")
            else:
                res.probe(f"oserror-{att['outcome']}")
            crashed_views.append(summarise(w.view(), plan))
            mode = "a"
            h.update(("\n".join(att["sim"].event_lines(sizes=False)) + att["outcome"]).encode())
        if not labels:
            return
        # ---- resume, no more faults -------------------------------------------
        before = summarise(w.view(), plan)
        final = w.attempt({}, "a")
        res.executions += 1
        res.events += len(final["sim"].events)
        after_view = w.view()
        after = summarise(after_view, plan)
        label = "+".join(labels)
        replay = dict(plan, faults=seq)
        res.shapes.append(hashlib.sha256(
            f"{be}|{plan['parallel']}|{len(plan['inputs'])}|{label}|{sorted(before)}".encode()).hexdigest()[:16])
        detail_base = (f"faults={seq} ({label}); store after crash={ {k: v[:2] for k, v in before.items()} }; "
                       f"after resume={ {k: v[:2] for k, v in after.items()} }; reference={ {k: v[:2] for k, v in ref_sum.items()} }")
        if final["outcome"] != "returned":
            res.add(f"C19.B.resume-raised/{be}:{label}:{type(final['exc']).__name__}",
                    f"resumed apply_to raised {final['exc']!r}; {detail_base}", replay)
            return
        # sqlite never retries a stored failure record (append mode refuses the id):
        # compare what the statement promises - the same store as an uninterrupted run
        diffs = []
        for key in sorted(set(ref_sum) | set(after)):
            a, b = after.get(key), ref_sum.get(key)
            if a is None:
                diffs.append(f"missing:{b[0]}")
            elif b is None:
                diffs.append("extra")
            elif a[:2] != b[:2]:
                if a[0] != b[0]:
                    diffs.append(f"kind:{b[0]}->{a[0]}")
                else:
                    diffs.append(f"content:{a[0]}")
        if after_view["dups"]:
            diffs.append("duplicate")
        if diffs:
            what = sorted(set(diffs))[0]
            res.add(f"C19.B.store-differs/{be}:{what}@{label}", f"{sorted(set(diffs))}; {detail_base}", replay)
        v = after_view["validate"]
        if not diffs and (v.get("error") or v.get("Num md5sum incorrect") or v.get("Num md5sum missing")):
            res.add(f"C19.B.store-differs/{be}:md5@{label}", f"validate()={v}; {detail_base}", replay)
        # processes only what is missing
        survived = {k for k, val in before.items() if val[0] == "completed" and ref_sum.get(k, (None, None))[:2] == val[:2]}
        again = sorted({stem for _tag, stem in final["processed"] if stem in survived})
        if again:
            res.add(f"C19.B.reprocessed/{be}:{label}", f"completed before the crash but processed again: {again}; {detail_base}", replay)
        if survived:
            res.probe("resume-skipped-completed")
        if len(before) < len(ref_sum):
            res.probe("resume-had-work")
    finally:
        w.close()


def _finish(res, h, plan):
    res.digest = h.hexdigest()
    res.sample = describe(plan)
    return res


def describe(plan):
    d = c14.describe(plan)
    d["faults"] = plan["faults"]
    return d


MINIMISE_KW = {"protect": ("engine", "idclass", "stem", "kind", "tag", "writer", "out_mode", "input_form",
                           "dir_order", "mode", "errno", "index"),
               "list_keys": ("inputs", "steps"),
               "budget_s": 40.0, "max_tries": 60}

EVIDENCE = {
    "rule": (
        "scenario = 2-5 inputs + composition + output store (directory via write_seqs/write_json, SQLite via write_db) "
        "+ serial or simulated-parallel apply_to, drawn from the seed; the reference run's T gated calls (file-system "
        "calls and SQL statements, from opening the store to apply_to returning) are each used as a kill point, followed "
        "by restart, re-open in append mode and a fault-free resume (thorough: also OSError at each call and 2-3 crashes "
        "in a row). evaluations = simulated process lifetimes. Non-trivial = a fault fired; distinct = distinct "
        "(backend, parallel, #inputs, fault-kind@call-kind sequence, set of records present after the crash) digests"
    ),
    "real": ["cogent3.app.composable._apply_to (append-only skip), writers, DataStoreDirectory, DataStoreSqlite, SQLite engine, file system",
             "scitrack CachingLogger when the scenario enables logging"],
    "stub": ["loky pool / as_completed (simexec), pid and clock of sqlite_data_store, uuid4/temp names, directory order"],
    "assumptions": [
        "process death = SIGKILL-like; SQLite's own per-statement atomic commit is trusted (kills are placed between statements)",
        "log records, record order and the SQLite lock pid are not compared (a resumed run legitimately has more logs)",
        "whether stored failure records are retried on resume is not asserted; only that the final store equals the uninterrupted one",
    ],
    "expected_probes": ["kill", "resume-skipped-completed", "resume-had-work"],
    "explanation": "C19-B enumerates every call boundary of an apply_to run as an interruption point and checks that the resumed store equals the uninterrupted one.",
}
