"""synthetic composable apps whose per-record outcome is chosen by the plan.

Importable (and therefore picklable by reference) from the simulated workers.
"""

import os
from typing import Union

from cogent3.app.composable import NotCompleted, define_app
from cogent3.app.typing import SeqsCollectionType, SerialisableType, TabularType


# (tag, stem) of every record a planned step was asked to process, in order;
# only the simulator reads it ("processes only what is missing")
CALL_LOG = []


def stem_of(source) -> str:
    name = os.path.basename(str(source))
    for sfx in (".fasta", ".fa", ".json"):
        if name.endswith(sfx):
            return name[: -len(sfx)]
    return name


@define_app
class planned:
    """tags every sequence name with `tag`, or fails in the planned way"""

    def __init__(self, tag: str, outcomes: dict):
        self.tag = tag
        self.outcomes = outcomes

    T = Union[SeqsCollectionType, SerialisableType]

    def main(self, seqs: SeqsCollectionType) -> T:
        stem = stem_of(seqs.info.source)
        CALL_LOG.append((self.tag, stem))
        outcome = self.outcomes.get(stem, "ok")
        if outcome == "raise":
            raise ValueError(f"planned failure of {stem} in {self.tag}")
        if outcome == "none":
            return None
        if outcome == "false":
            return NotCompleted("FALSE", self, f"planned false for {stem} in {self.tag}", source=seqs)
        if outcome == "relabel":
            # a failure whose NotCompleted names something other than the input
            return NotCompleted("FALSE", self, f"planned relabel for {stem} in {self.tag}", source=f"label-of-{stem}")
        if outcome == "wrong":
            return {"wrong": "type", "stem": stem}
        tag = self.tag
        return seqs.rename_seqs(lambda n: f"{n}{tag}")


@define_app
class planned2:
    """same behaviour, second class name (so that `origin` tells steps apart)"""

    def __init__(self, tag: str, outcomes: dict):
        self.tag = tag
        self.outcomes = outcomes

    T = Union[SeqsCollectionType, SerialisableType]

    def main(self, seqs: SeqsCollectionType) -> T:
        return planned.main(self, seqs)


@define_app
class planned3:
    def __init__(self, tag: str, outcomes: dict):
        self.tag = tag
        self.outcomes = outcomes

    T = Union[SeqsCollectionType, SerialisableType]

    def main(self, seqs: SeqsCollectionType) -> T:
        return planned.main(self, seqs)


@define_app
class planned_any:
    """a step whose input hint accepts anything (SerialisableType), as many real
    apps do; a not-completed value must still pass it by untouched"""

    def __init__(self, tag: str, outcomes: dict):
        self.tag = tag
        self.outcomes = outcomes

    T = Union[SeqsCollectionType, SerialisableType]

    def main(self, seqs: SerialisableType) -> T:
        return planned.main(self, seqs)


@define_app
def planned_func(seqs: SeqsCollectionType, tag: str = "", outcomes: dict = None, seen: list = None) -> planned.T:
    """a function-based step with mutable constructor arguments that it modifies:
    composable hands every call its own copy, so what one input did to them must
    never reach the next input"""
    stem = stem_of(seqs.info.source)
    CALL_LOG.append((tag, stem))
    seen.append(stem)
    outcome = outcomes.pop(stem, "ok")
    outcomes.clear()
    me = "planned_func"
    if outcome == "raise":
        raise ValueError(f"planned failure of {stem} in {tag}")
    if outcome == "none":
        return None
    if outcome == "false":
        return NotCompleted("FALSE", me, f"planned false for {stem} in {tag}", source=seqs)
    if outcome == "relabel":
        return NotCompleted("FALSE", me, f"planned relabel for {stem} in {tag}", source=f"label-of-{stem}")
    if outcome == "wrong":
        return {"wrong": "type", "stem": stem}
    carried = "" if seen == [stem] else "+carried:" + ",".join(seen[:-1])
    return seqs.rename_seqs(lambda n: f"{n}{tag}{carried}")


@define_app
class seqs_to_table:
    """sequence names and lengths as a table (the value a tabular writer stores)"""

    def main(self, seqs: SeqsCollectionType) -> TabularType:
        from cogent3 import make_table

        rows = [[n, len(seqs.get_seq(n))] for n in seqs.names]
        table = make_table(header=["name", "length"], data=rows)
        table.source = seqs.info.source
        return table


STEP_CLASSES = (planned, planned2, planned3)
