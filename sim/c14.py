"""C14: composed apps account for every input exactly once, on any schedule.

A run builds 1-8 input files, a composition loader + planned steps (+ real
apps) + writer whose per-record outcomes are plan-chosen, and applies it with
``apply_to`` (serially, or in parallel on the simulated pool with plan-chosen
worker count, task durations, master service times and delivery choices).

Oracle: for each input alone, a fresh copy of the composition (without the
writer) is called directly and a fresh writer stores that value into its own
fresh store; the store produced by ``apply_to`` must contain, for every input,
exactly that one record (completed xor not-completed, same content) under
that input's identifier and nothing else, and ``apply_to`` must not raise.
Independently of the code under test, the plan predicts which step fails how,
so type/origin/source of every not-completed record are checked against the
plan (a not-completed value passes through later steps unchanged).
"""

from __future__ import annotations

import hashlib
import json
import os
import pickle

import simexec
import simos
import simsql
from core import Choices, RunResult

OUTCOMES = ("ok", "ok", "ok", "raise", "none", "false", "wrong", "relabel")


def gen(rng, tier, index):
    n = rng.randint(1, 6 if tier == "quick" else 8)
    base = rng.choice(["a", "b"])
    pool = [base, rng.choice("ab") + base, base + rng.choice("ab"), rng.choice("ab") + rng.choice("ab") + base,
            "".join(rng.choice("ab") for _ in range(rng.randint(1, 3))), "c", "ca", "ac"]
    idclass = "plain"
    if rng.random() < 0.06:
        idclass = "dotted"
        pool += ["x.1", "x.2"]
    stems = []
    for s in rng.sample(pool, len(pool)):
        if s not in stems:
            stems.append(s)
    stems = stems[:n]
    inputs = []
    for s in stems:
        r = rng.random()
        kind = "good" if r < 0.75 else "short" if r < 0.85 else "malformed" if r < 0.93 else "empty"
        inputs.append({"stem": s, "kind": kind, "nseq": rng.randint(1, 4), "len": rng.choice([6, 12, 30]),
                       "name_offset": rng.choice([0, 0, 0, 1, 2])})
    if len(inputs) > 1 and rng.random() < 0.25:
        # inputs with identical content under different identifiers
        for _ in range(rng.randint(1, 2)):
            i, j = sorted(rng.sample(range(len(inputs)), 2))
            inputs[j] = {**inputs[i], "stem": inputs[j]["stem"], "same_as": inputs[i].get("same_as", inputs[i]["stem"])}
    n_steps = rng.randint(0, 3)
    steps = []
    for k in range(n_steps):
        outcomes = {}
        for s in stems:
            o = rng.choice(OUTCOMES)
            if o != "ok":
                outcomes[s] = o
        steps.append({"tag": f"_{k + 1}", "outcomes": outcomes, "any": k > 0 and rng.random() < 0.3})
        if not steps[-1]["any"] and rng.random() < 0.25:
            steps[-1]["func"] = True  # function-based app with mutable constructor arguments
    writer = rng.choice(["seqs", "seqs", "json", "db", "tabular", "seqs", "db", "json"])
    parallel = rng.random() < 0.75
    plan = {
        "engine": "c14",
        "idclass": idclass,
        "inputs": inputs,
        "steps": steps,
        "min_length": rng.choice([0, 0, 8]),
        "writer": writer,
        "out_mode": rng.choice(["w", "w", "a"]),
        "input_form": rng.choice(["dstore", "paths", "dstore", "objects"]),
        "logger": rng.random() < 0.3,
        "parallel": parallel,
        "max_workers": rng.choice([None, 1, 2, 3, 4, 40]),
        "cpu_count": rng.choice([2, 3, 4, 8, 16]),
        "durations": [rng.choice([0, 1, 1, 2, 5, 50]) for _ in range(n)],
        "services": [rng.choice([0, 0, 1, 3, 20]) for _ in range(3)],
        "choices": [rng.randint(0, 7) for _ in range(n + 2)],
        "dir_order": rng.choice(["sorted", "reverse", "s%d" % rng.randint(0, 9)]),
        "mode": "apply_to" if rng.random() < 0.8 else "as_completed",
        # a shipped app that by design keeps state from the first record it sees
        "take_n": 2 if rng.random() < 0.06 else 0,
    }
    # records already in the output store when apply_to starts (append mode): their
    # identifiers are related to, but different from, the inputs'; every input must
    # still be processed and they must be left alone
    plan["preexisting"] = []
    if rng.random() < 0.3:
        rel = []
        for s in stems:
            rel += [rng.choice("ab") + s, s + rng.choice("ab"), s[1:] if len(s) > 1 else s + "z"]
        rel = [r for r in dict.fromkeys(rel) if r and r not in stems][: rng.randint(1, 3)]
        plan["preexisting"] = [{"stem": r, "kind": rng.choice(["completed", "completed", "nc"])} for r in rel]
        # ... and sometimes records of the inputs themselves, as a resumed run finds them:
        # a completed one must be skipped and kept, a failed one (directory store) is tried again
        for s in stems:
            if rng.random() < 0.25:
                plan["preexisting"].append({"stem": s, "kind": rng.choice(["completed", "nc"])})
        if plan["preexisting"]:
            plan["out_mode"] = "a"
    if plan["input_form"] == "objects":
        # in-memory collections (carrying .info.source) fed to steps + writer
        for i in plan["inputs"]:
            if i["kind"] in ("malformed", "empty"):
                i["kind"] = "good"
        if not plan["steps"] and not plan["min_length"]:
            plan["steps"] = [{"tag": "_1", "outcomes": {}}]
    return plan


# ---------------------------------------------------------------------------


def _input_text(inp):
    import random

    r = random.Random(f"{inp.get('same_as') or inp['stem']}|{inp['nseq']}|{inp['len']}")
    if inp["kind"] == "malformed":
        return "this is not\nfasta at all\n"
    if inp["kind"] == "empty":
        return ""
    # (the minimiser lowers integers: keep every plan a valid input file)
    ln = 4 if inp["kind"] == "short" else max(6, inp["len"])
    return "".join(
        f">s{i + inp.get('name_offset', 0)}\n" + "".join(r.choice("ACGT") for _ in range(ln)) + "\n"
        for i in range(max(1, inp["nseq"]))
    )


def build_app(plan, data_store=None, with_writer=True):
    from cogent3.app import io as io_app
    from cogent3 import get_app

    import verif_apps as va

    objects = plan["input_form"] == "objects"
    app = None if objects else io_app.load_unaligned(format="fasta", moltype="dna")
    names = [] if objects else ["load_unaligned"]
    if plan["min_length"]:
        nxt = get_app("min_length", plan["min_length"])
        app = nxt if app is None else app + nxt
        names.append("min_length")
    if plan.get("take_n"):
        nxt = get_app("take_n_seqs", number=plan["take_n"])
        app = nxt if app is None else app + nxt
        names.append("take_n_seqs")
    for k, st in enumerate(plan["steps"]):
        cls = va.planned_any if st.get("any") else va.planned_func if st.get("func") else va.STEP_CLASSES[k % 3]
        if st.get("func"):
            nxt = cls(tag=st["tag"], outcomes=dict(st["outcomes"]), seen=[])
        else:
            nxt = cls(st["tag"], dict(st["outcomes"]))
        app = nxt if app is None else app + nxt
        names.append(cls.__name__)
    if plan["writer"] == "tabular":
        nxt = va.seqs_to_table()
        app = nxt if app is None else app + nxt
        names.append("seqs_to_table")
    if with_writer:
        w = {"seqs": lambda: io_app.write_seqs(data_store, format="fasta"),
             "tabular": lambda: io_app.write_tabular(data_store, format="tsv"),
             "json": lambda: io_app.write_json(data_store),
             "db": lambda: io_app.write_db(data_store)}[plan["writer"]]()
        app = app + w
        names.append(type(w).__name__)
    return app, names


def open_out(plan, path, mode):
    from cogent3.app.io import open_data_store

    if plan["writer"] == "db":
        return open_data_store(f"{path}.sqlitedb", mode=mode)
    suffix = {"seqs": "fasta", "json": "json", "tabular": "tsv"}[plan["writer"]]
    return open_data_store(path, suffix=suffix, mode=mode)


def predict(plan, inp, names):
    """(kind, type, origin) predicted from the plan alone"""
    if inp["kind"] in ("malformed", "empty"):
        return ("nc", "ERROR", "load_unaligned")
    pos = 0 if plan["input_form"] == "objects" else 1
    if plan["min_length"]:
        if inp["kind"] == "short" or max(6, inp["len"]) < plan["min_length"]:
            return ("nc", "FALSE", "min_length")
        pos += 1
    if plan.get("take_n"):
        if max(1, inp["nseq"]) < plan["take_n"]:
            return ("nc", "FALSE", "take_n_seqs")
        pos += 1
    for k, st in enumerate(plan["steps"]):
        o = st["outcomes"].get(inp["stem"], "ok")
        me = names[pos + k]
        if o == "raise":
            return ("nc", "ERROR", me)
        if o == "none":
            return ("nc", "BUG", me)
        if o in ("false", "relabel"):
            return ("nc", "FALSE", me)
        if o == "wrong":
            # the next app in the chain rejects the type - unless its input hint
            # accepts anything, in which case its main() fails on the value
            nxt = names[pos + k + 1] if pos + k + 1 < len(names) else None
            return ("nc", "ERROR", nxt)
    return ("completed", None, None)


def predict_detail(plan, inp):
    """(source file name, phrase of the last message line) of the failure record the
    plan predicts for this input; None where the plan cannot tell"""
    stem = inp["stem"]
    if inp["kind"] in ("malformed", "empty"):
        return (f"{stem}.fasta", None)
    if plan["min_length"] and (inp["kind"] == "short" or max(6, inp["len"]) < plan["min_length"]):
        return (f"{stem}.fasta", None)
    if plan.get("take_n") and max(1, inp["nseq"]) < plan["take_n"]:
        return (f"{stem}.fasta", "not enough sequences")
    for st in plan["steps"]:
        o = st["outcomes"].get(stem, "ok")
        if o == "raise":
            return (f"{stem}.fasta", f"planned failure of {stem} in {st['tag']}")
        if o == "none":
            return (f"{stem}.fasta", "unexpected output value None")
        if o == "false":
            return (f"{stem}.fasta", f"planned false for {stem} in {st['tag']}")
        if o == "relabel":
            return (f"label-of-{stem}", f"planned relabel for {stem} in {st['tag']}")
        if o == "wrong":
            # rejected by the type check of the next app, which knows the input; if that
            # app accepts anything its main() fails on a value that cannot name a source
            k = plan["steps"].index(st)
            nxt = plan["steps"][k + 1] if k + 1 < len(plan["steps"]) else None
            if nxt is not None and nxt.get("any"):
                return (None, None)
            return (f"{stem}.fasta", "invalid data type")
    return (None, None)


def record_view(ds, plan):
    """{key: (kind, content)} as stored"""
    out = {}
    dups = []
    suffix = {"seqs": ".fasta", "json": ".json", "db": "", "tabular": ".tsv"}[plan["writer"]]
    for kind, members in (("completed", ds.completed), ("nc", ds.not_completed)):
        for m in members:
            uid = str(m.unique_id).split("/")[-1]
            sfx = suffix if kind == "completed" else (".json" if plan["writer"] != "db" else "")
            key = uid[: -len(sfx)] if sfx and uid.endswith(sfx) else uid
            if key in out:
                dups.append(key)
            try:
                content = m.read()
            except Exception as e:  # noqa: BLE001  (a member that cannot be read is an observation)
                content = f"<read failed: {type(e).__name__}: {e}>"
            out[key] = (kind, content)
    return out, dups


def nc_fields(content, plan):
    """(type, origin, source, last message line) of a stored failure record"""
    from cogent3.util.deserialise import deserialise_object

    try:
        if plan["writer"] == "db":
            from cogent3.app.io import DEFAULT_DESERIALISER

            obj = DEFAULT_DESERIALISER(content)
        else:
            obj = deserialise_object(content)
        msg = obj.message.strip().splitlines()[-1] if obj.message.strip() else ""
        return (obj.type, obj.origin, obj.source, msg)
    except Exception as e:  # noqa: BLE001
        return ("<unreadable>", type(e).__name__, None, str(e)[:80])


def canon_completed(content, plan):
    """content of a completed record up to fields that legitimately vary"""
    if plan["writer"] == "db":
        try:
            return pickle.loads(content)
        except Exception:
            return content
    if plan["writer"] == "json":
        try:
            return json.loads(content)
        except Exception:
            return content
    return content


class _NoPool:
    """stand-in used by the real-loky fidelity self-test: installs nothing"""

    delivered = []
    done_sizes = []
    steps = 0
    time = 0.0
    reordered = False

    def __init__(self, n):
        self.submitted = None  # a real pool is not observed: the submission count is not checked

    def __enter__(self):
        return self

    def __exit__(self, *a):
        return False


def run(plan, tier="quick", real_pool=False) -> RunResult:
    res = RunResult()
    root = simos.make_sandbox("c14")
    sim = simos.SimOS(root, dir_order=plan["dir_order"])
    sql = simsql.SimSql(sim)
    pool = simexec.SimPool(Choices(plan["choices"]), cpu_count=plan["cpu_count"],
                           durations=plan["durations"], services=plan["services"])
    if real_pool:
        pool = _NoPool(len(plan["inputs"]))
    res.config = "parallel" if plan["parallel"] else "serial"
    idc = "" if plan["idclass"] == "plain" else f":{plan['idclass']}"
    wr = plan["writer"]
    res.probe(f"writer:{wr}")
    replay = plan
    try:
        import cogent3.app.sqlite_data_store  # noqa: F401

        in_dir = os.path.join(root, "in")
        os.mkdir(in_dir)
        for inp in plan["inputs"]:
            with open(os.path.join(in_dir, f"{inp['stem']}.fasta"), "w") as f:
                f.write(_input_text(inp))
        stems = [i["stem"] for i in plan["inputs"]]
        with sim, sql, pool:
            from cogent3.app.io import open_data_store
            from cogent3.app.composable import NotCompleted

            # ---- reference: each input alone, fresh app, fresh store ----------
            expected = {}
            from cogent3.app import io as _io

            io_loader = _io.load_unaligned(format="fasta", moltype="dna")
            _, names = build_app(plan, None, with_writer=False)
            names_w = names + [{"seqs": "write_seqs", "json": "write_json", "db": "write_db", "tabular": "write_tabular"}[wr]]
            for inp in plan["inputs"]:
                stem = inp["stem"]
                path = os.path.join(in_dir, f"{stem}.fasta")
                fresh, _ = build_app(plan, None, with_writer=False)
                arg = path
                if plan["input_form"] == "objects":
                    arg = io_loader(path)
                if plan["input_form"] == "dstore":
                    # the same kind of object apply_to hands to the loader
                    ref_in = open_data_store(in_dir, suffix="fasta", mode="r")
                    arg = next(m for m in ref_in.completed if m.unique_id == f"{stem}.fasta")
                value = fresh(arg)
                ref_store = open_out(plan, os.path.join(root, f"ref_{len(expected)}"), "w")
                wapp, _ = build_app(plan, ref_store, with_writer=True)
                pred = predict(plan, inp, names_w)
                try:
                    wapp.main(value, identifier=stem) if not isinstance(value, NotCompleted) or True else None
                    view, _d = record_view(ref_store, plan)
                except Exception as e:  # noqa: BLE001
                    view = {"<raised>": ("raised", f"{type(e).__name__}: {e}")}
                if hasattr(ref_store, "close"):
                    ref_store.close()
                expected[stem] = (value, view, pred)
                # the plan's prediction vs calling the app on the input alone
                got_kind = "nc" if isinstance(value, NotCompleted) else "completed"
                if pred[1] is not None and pred[2] == names_w[-1]:
                    # wrong type handed to the writer: see C14.raised below
                    res.probe("wrong-type-reaches-writer")
                elif got_kind != pred[0] or (
                    got_kind == "nc" and (value.type, value.origin) != (pred[1], pred[2])
                ):
                    res.add(
                        f"C14.passthrough/{pred[1]}:{'same-step' if got_kind == 'nc' else 'completed'}",
                        f"input {stem!r} ({inp['kind']}): plan predicts {pred}, app(x) alone gave "
                        f"{(got_kind, getattr(value, 'type', None), getattr(value, 'origin', None))}; "
                        f"steps={plan['steps']} min_length={plan['min_length']}",
                        replay,
                    )
                elif got_kind == "nc" and pred[1] != "ERROR" or (got_kind == "nc" and pred[2] != "load_unaligned"):
                    src = getattr(value, "source", None)
                    wrong_step = any(st["outcomes"].get(stem) in ("wrong", "relabel") for st in plan["steps"])
                    if not wrong_step and (src is None or os.path.basename(str(src)) != f"{stem}.fasta"):
                        res.add(
                            f"C14.source-lost/{pred[1]}",
                            f"failure record of {stem!r} names source {src!r}", replay,
                        )

            # ---- the run under test ---------------------------------------------
            if plan["input_form"] == "dstore":
                inputs = open_data_store(in_dir, suffix="fasta", mode="r")
            elif plan["input_form"] == "objects":
                inputs = [io_loader(os.path.join(in_dir, f"{s}.fasta")) for s in stems]
            else:
                inputs = [os.path.join(in_dir, f"{s}.fasta") for s in stems]
            par_kw = {"max_workers": plan["max_workers"]} if plan["max_workers"] is not None else None

            if plan["mode"] == "as_completed":
                app, _ = build_app(plan, None, with_writer=False)
                try:
                    got = list(app.as_completed(inputs, parallel=plan["parallel"], par_kw=par_kw,
                                                show_progress=False))
                except Exception as e:  # noqa: BLE001
                    res.add(f"C14.raised/as_completed:{type(e).__name__}", f"as_completed raised {e!r}", replay)
                    got = None
                if got is not None:
                    seen = {}
                    for r in got:
                        src = getattr(r, "source", None)
                        obj = getattr(r, "obj", r)
                        key = None
                        from cogent3.app.data_store import get_unique_id

                        try:
                            key = get_unique_id(src)
                        except Exception:
                            key = str(src)
                        seen.setdefault(key, []).append(obj)
                    for stem in stems:
                        vals = seen.pop(stem, [])
                        want = expected[stem][0]
                        if len(vals) != 1:
                            res.add(f"C14.{'missing' if not vals else 'duplicate'}/as_completed{idc}",
                                    f"{stem!r} yielded {len(vals)} results", replay)
                            continue
                        if _value_sig(vals[0]) != _value_sig(want):
                            res.add(f"C14.content-differs/as_completed{idc}",
                                    f"{stem!r}: got {_value_sig(vals[0])!r}, alone gives {_value_sig(want)!r}", replay)
                    if seen:
                        res.add(f"C14.wrong-identifier/as_completed{idc}", f"unexpected sources {sorted(seen)}", replay)
            else:
                out_path = os.path.join(root, "out")
                pre = {}
                if plan.get("preexisting"):
                    seed_store = open_out(plan, out_path, "w")
                    for k, rec in enumerate(plan["preexisting"]):
                        payload = f">pre{k}\nACGTACGT\n" if wr != "db" else f"pre{k}".encode()
                        if wr == "json":
                            payload = json.dumps({"pre": k})
                        if rec["kind"] == "completed":
                            seed_store.write(unique_id=rec["stem"], data=payload)
                        else:
                            nid = rec["stem"] if wr == "db" else f"{rec['stem']}.json"
                            seed_store.write_not_completed(unique_id=nid, data=payload)
                        pre[rec["stem"]] = (rec["kind"] if rec["kind"] == "completed" else "nc", payload)
                    if hasattr(seed_store, "close"):
                        seed_store.close()
                    sql.close_all()
                    res.probe("output-store-prepopulated")
                out = open_out(plan, out_path, plan["out_mode"])
                app, _ = build_app(plan, out, with_writer=True)
                raised = None
                try:
                    result = app.apply_to(inputs, parallel=plan["parallel"], par_kw=par_kw,
                                          logger=None if plan["logger"] else False, show_progress=False)
                except Exception as e:  # noqa: BLE001
                    raised = e
                writer_gets_wrong = [s for s in stems if expected[s][1].get("<raised>")]
                if raised is not None:
                    import traceback

                    tb = "".join(traceback.format_exception(raised))[-900:]
                    feature = "wrong-type-to-writer" if writer_gets_wrong else "other"
                    res.add(f"C14.raised/{type(raised).__name__}:{feature}",
                            f"apply_to raised {raised!r}; delivered={pool.delivered}; {tb}", replay)
                else:
                    view, dups = record_view(result, plan)
                    live_keys = set(view)
                    # what a user can observe, for the run digest (cross hash seed comparison)
                    res.observed = sorted(
                        (k, kind, (repr(canon_completed(c, plan)) if kind == "completed"
                                   else repr(nc_fields(c, plan))).replace(root, "<root>"))
                        for k, (kind, c) in view.items()
                    )
                    # also through a fresh handle
                    if hasattr(result, "close"):
                        result.close()
                    fresh = open_out(plan, out_path, "r")
                    fview, fdups = record_view(fresh, plan)
                    if hasattr(fresh, "close"):
                        fresh.close()
                    inp_by_stem = {i["stem"]: i for i in plan["inputs"]}
                    for who, v, d in (("live", view, dups), ("fresh", fview, fdups)):
                        if d:
                            res.add(f"C14.duplicate/{wr}{idc}", f"[{who}] identifiers stored twice: {d}", replay)
                        for stem in stems:
                            value, ref_view, pred = expected[stem]
                            if stem in pre:
                                pkind, ppayload = pre[stem]
                                got = v.get(stem)
                                if pkind == "completed":
                                    res.probe("input-already-completed")
                                    # resumed run: kept as it was
                                    continue  # checked by the pre-existing loop below
                                res.probe("input-previously-failed")
                                if wr == "db":
                                    # SQLite: a stored failure counts as present and is not retried
                                    if got is None:
                                        res.add(f"C14.missing/{wr}{idc}:previously-failed",
                                                f"[{who}] {stem!r} had a failure record before the run and has no record now", replay)
                                    continue
                                # directory store: a failed input is processed again (see _apply_to's comment)
                            if "<raised>" in ref_view:
                                # a wrong-typed value reached the writer: it must be
                                # recorded as a failure of the writer step
                                res.probe("wrong-type-recorded-by-writer")
                                got = v.get(stem)
                                if got is None or got[0] != "nc":
                                    res.add(f"C14.missing/{wr}{idc}:nc:writer-rejects",
                                            f"[{who}] {stem!r}: wrong-typed value reached the writer, stored {got and got[0]}", replay)
                                elif nc_fields(got[1], plan)[:2] != (pred[1], pred[2]):
                                    res.add(f"C14.passthrough/{pred[1]}:writer",
                                            f"[{who}] {stem!r}: {nc_fields(got[1], plan)[:2]} vs plan {pred[1:]}", replay)
                                continue
                            want_kind, want_content = ref_view.get(stem, (None, None))
                            if stem not in v:
                                res.add(
                                    f"C14.missing/{wr}{idc}:{pred[0]}:{pred[1]}",
                                    f"[{who}] no record for input {stem!r} (alone it is {want_kind}); "
                                    f"store has {sorted(v)}; delivered={pool.delivered} parallel={plan['parallel']}",
                                    replay,
                                )
                                continue
                            kind, content = v[stem]
                            if kind != want_kind:
                                res.add(f"C14.wrong-kind/{wr}{idc}:{want_kind}",
                                        f"[{who}] {stem!r} stored as {kind}, alone it is {want_kind}", replay)
                            elif kind == "completed":
                                if canon_completed(content, plan) != canon_completed(want_content, plan):
                                    res.add(
                                        f"C14.content-differs/{wr}{idc}",
                                        f"[{who}] completed record {stem!r} differs from the app on that input alone: "
                                        f"{str(content)[:120]!r} vs {str(want_content)[:120]!r}; delivered={pool.delivered}",
                                        replay,
                                    )
                            else:
                                a, b = nc_fields(content, plan), nc_fields(want_content, plan)
                                if a != b:
                                    res.add(f"C14.content-differs/{wr}{idc}:nc",
                                            f"[{who}] failure record {stem!r}: {a} vs alone {b}", replay)
                                elif (a[0], a[1]) != (pred[1], pred[2]):
                                    res.add(f"C14.passthrough/{pred[1]}:stored",
                                            f"[{who}] failure record {stem!r} is {a[:2]}, plan predicts {pred[1:]}", replay)
                                elif isinstance(value, NotCompleted) and "<raised>" not in ref_view and \
                                        a != (value.type, value.origin, value.source,
                                              value.message.strip().splitlines()[-1] if value.message.strip() else ""):
                                    # the stored record against the in-memory value app(x) returns
                                    # (serialisation must not change type, origin, source or message)
                                    mem = (value.type, value.origin, value.source,
                                           value.message.strip().splitlines()[-1] if value.message.strip() else "")
                                    field = next(n for n, x, y in zip(("type", "origin", "source", "message"), a, mem) if x != y)
                                    res.add(f"C14.record-fidelity/{wr}{idc}:{field}",
                                            f"[{who}] failure record {stem!r} deserialises to {a}, the app returns {mem}", replay)
                                else:
                                    # source and message of the stored record, predicted from the plan
                                    # alone (the reference goes through the same serialisation code)
                                    want_src, want_msg = predict_detail(plan, inp_by_stem[stem])
                                    if want_src is not None and os.path.basename(str(a[2])) != want_src:
                                        res.add(f"C14.record-detail/{wr}{idc}:source",
                                                f"[{who}] failure record {stem!r} names source {a[2]!r}, expected {want_src!r}", replay)
                                    elif want_msg is not None and want_msg not in str(a[3]):
                                        res.add(f"C14.record-detail/{wr}{idc}:message",
                                                f"[{who}] failure record {stem!r} has message {a[3]!r}, expected to contain {want_msg!r}", replay)
                        for pstem, (pkind, ppayload) in pre.items():
                            if pstem in stems and not (pkind == "completed"):
                                continue  # retried (directory) or kept (SQLite): handled above
                            got = v.get(pstem)
                            same = got is not None and got[0] == pkind and (
                                got[1] == ppayload or (isinstance(got[1], str) and isinstance(ppayload, bytes)
                                                       and got[1].encode() == ppayload))
                            if not same:
                                res.add(f"C14.preexisting-changed/{wr}{idc}:{pkind}",
                                        f"[{who}] record {pstem!r} that was in the store before apply_to is now "
                                        f"{got and (got[0], str(got[1])[:40])}; inputs={stems}", replay)
                        extra = sorted(set(v) - set(stems) - set(pre))
                        if extra:
                            res.add(f"C14.wrong-identifier/{wr}{idc}",
                                    f"[{who}] records under identifiers that are no input: {extra}; inputs={stems}; "
                                    f"delivered={pool.delivered}", replay)
                    n_skip = len([s_ for s_ in stems if s_ in pre and (pre[s_][0] == "completed" or wr == "db")])
                    if plan["parallel"] and pool.submitted is not None and pool.submitted != len(stems) - n_skip:
                        res.add(f"C14.submitted/{wr}", f"{pool.submitted} tasks submitted for {len(stems)} inputs", replay)
    finally:
        sql.close_all()
        simos.remove_sandbox(root)
    if plan.get("take_n") and not plan["parallel"] and len({i.get("name_offset", 0) for i in plan["inputs"]}) > 1:
        # take_n_seqs(fixed_choice=True, the default) keeps the names chosen for the first
        # record it sees: in one process the result for an input depends on what came
        # before it (known finding C14-K1); tasks of a pool each get a fresh copy
        res.probe("stateful-shipped-app-in-one-process")
        for v in res.violations:
            if v.cls.startswith(("C14.content-differs", "C14.wrong-kind", "C14.passthrough", "C14.record-detail")):
                v.cls = "C14.stateful-app/take_n_seqs"
    res.executions = 1
    res.events = len(sim.events) + sql.mutating + pool.steps
    res.sim_time = pool.time
    if pool.reordered:
        res.probe("delivery-reordered")
    if any(i.get("same_as") for i in plan["inputs"]):
        res.probe("inputs-with-identical-content")
    if any(st.get("func") for st in plan["steps"]):
        res.probe("function-based-step-with-mutable-arguments")
    if any(n > 1 for n in pool.done_sizes):
        res.probe("several-finished-at-once")
    if plan["parallel"]:
        res.fault("schedule:skewed-durations" if max(plan["durations"]) >= 5 else "schedule:even-durations")
    outcome_pattern = []
    for inp in plan["inputs"]:
        p = predict(plan, inp, ([] if plan["input_form"] == "objects" else ["load_unaligned"]) +
                    (["min_length"] if plan["min_length"] else []) + (["take_n_seqs"] if plan.get("take_n") else []) +
                    ["planned_any" if st.get("any") else "planned_func" if st.get("func") else ["planned", "planned2", "planned3"][k % 3]
                     for k, st in enumerate(plan["steps"])] +
                    (["seqs_to_table"] if plan["writer"] == "tabular" else []) + ["writer"])
        outcome_pattern.append(f"{p[0][0]}{p[1] or ''}")
        res.probe(f"outcome:{p[1] or 'completed'}")
    order = "".join(str(i) for i in pool.delivered)
    shape = f"{wr}|{plan['parallel']}|{plan['max_workers']}|{order}|{','.join(outcome_pattern)}|{plan['mode']}"
    if len(plan["inputs"]) > 1:
        res.shapes.append(hashlib.sha256(shape.encode()).hexdigest()[:16])
    h = hashlib.sha256("\n".join(sim.event_lines(sizes=False)).encode())
    h.update(repr(pool.delivered).encode())
    h.update(repr(getattr(res, "observed", None)).encode())
    h.update(repr(sorted(v.cls for v in res.violations)).encode())
    res.digest = h.hexdigest()
    res.sample = describe(plan)
    res.sample["delivered"] = pool.delivered
    return res


def _value_sig(v):
    from cogent3.app.composable import NotCompleted

    if isinstance(v, NotCompleted):
        msg = v.message.strip().splitlines()[-1] if v.message.strip() else ""
        return ("nc", v.type, v.origin, v.source, msg)
    try:
        return ("ok", v.to_fasta())
    except Exception:
        return ("other", repr(v)[:200])


def describe(plan):
    return {
        "inputs": [f"{i['stem']}:{i['kind']}" for i in plan["inputs"]],
        "steps": plan["steps"], "min_length": plan["min_length"], "writer": plan["writer"],
        "parallel": plan["parallel"], "max_workers": plan["max_workers"], "cpu_count": plan["cpu_count"],
        "durations": plan["durations"], "services": plan["services"], "choices": plan["choices"],
        "mode": plan["mode"], "out_mode": plan["out_mode"], "input_form": plan["input_form"],
    }


MINIMISE_KW = {"protect": ("engine", "idclass", "stem", "kind", "tag", "writer", "out_mode", "input_form",
                           "dir_order", "mode", "min_length"),
               "list_keys": ("inputs", "steps", "choices", "durations", "services", "preexisting"),
               "budget_s": 40.0, "max_tries": 150}

# the first N runs are repeated in interpreters with another PYTHONHASHSEED
CROSS_HASHSEED = 240

EVIDENCE = {
    "rule": (
        "run = 1-6 (quick) / 1-8 (thorough) input files with related identifiers, a composition load_unaligned "
        "[+ min_length] + 0-3 planned steps (class-based, accepts-anything, function-based with mutable arguments) [+ seqs_to_table] + writer (write_seqs/write_json/write_db/write_tabular) with plan-chosen per-record "
        "outcomes (success, exception, None, FALSE NotCompleted, wrong type; malformed/empty/short input files), "
        "applied with apply_to or as_completed, serially or on the simulated pool (workers, cpu count, task durations, "
        "master service times, delivery choice among finished futures all plan-chosen). Non-trivial = more than one "
        "input; distinct = distinct (writer, parallel, max_workers, delivered permutation, outcome pattern, mode) digests"
    ),
    "real": [
        "cogent3.app.composable (define_app, _call, source_proxy, _as_completed, _apply_to), cogent3.util.parallel.as_completed/_as_completed_mproc",
        "cogent3.app.io loaders/writers, data stores, SQLite, file system (real)",
        "pickle boundary between master and worker (cloudpickle out, pickle back), as loky does",
    ],
    "stub": [
        "loky.get_reusable_executor, concurrent.futures.as_completed, multiprocessing.cpu_count/current_process: discrete-event pool model (simexec)",
    ],
    "assumptions": [
        "a task body is run at its delivery instant: a valid linearisation because worker tasks read nothing the master mutates (loaders read the input files, only the master writes the output store)",
        "module-global state is shared between simulated workers (none of the apps used keeps any)",
        "worker death and unpicklable results are transport failures, not 'a record fails', and are not generated",
        "the source field of a failure caused by a wrong-typed intermediate value is not asserted (such a value carries no source)",
    ],
    "expected_probes": ["delivery-reordered", "several-finished-at-once", "outcome:ERROR", "outcome:BUG",
                        "outcome:FALSE", "outcome:completed", "function-based-step-with-mutable-arguments", "inputs-with-identical-content", "writer:tabular", "writer:db", "writer:json", "writer:seqs"],
    "explanation": "C14 runs real apply_to/as_completed on a simulated pool and compares the store with per-input references.",
}
