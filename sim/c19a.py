"""C19-A: single-path writers are all-or-nothing.

A scenario is (call site, object, format, compression, pre-state, buffer
size, optional formatter failure).  A fault-free reference run records the T
gated file-system calls of the write; the scenario is then re-run once per
call index with ``kill@k`` and once per (call index, applicable errno) with
``oserror@k`` (plus ``short@k`` on raw writes, and a sample of two-fault
sequences in the thorough tier).  The crash-point dimension is enumerated
exhaustively per scenario; scenarios are sampled from the seed.

Invariants (DESIGN.md, C19-A):
 I1  always: destination is byte-for-byte the old file (or still absent) or a
     complete new file.
 I2  handled failure (process alive): no directory entry that did not exist
     before, other than the destination; bystander files untouched.  Not
     asserted when the injected fault hit a clean-up call itself.
 I3  normal return: destination = new content, and I2.
"""

from __future__ import annotations

import bz2
import gzip
import hashlib
import io
import os
import zipfile

import simos
from core import RunResult

REAL = simos._real

SITES = (
    "Alignment.write",
    "ArrayAlignment.write",
    "SequenceCollection.write",
    "new.SequenceCollection.write",
    "PhyloNode.write",
    "Table.write",
    "DictArray.write",
    "DistanceMatrix.write",
    "ScoredTreeCollection.write",
    "atomic_write.zip",
    "open_.zip",
    "atomic_write.with",
)

SEQ_FORMATS = ("fasta", "phylip", "paml", "gde", "json")
TREE_FORMATS = ("nwk", "xml", "json")
TABLE_FORMATS = ("tsv", "csv", "json", "pickle", "md", "rst", "tex")
DA_FORMATS = ("tsv", "csv", "md")


# ---------------------------------------------------------------------------
# generation


def gen(rng, tier, index):
    site = SITES[index % len(SITES)] if index < 4 * len(SITES) else rng.choice(SITES)
    plan = {
        "engine": "c19a",
        "site": site,
        "n": rng.randint(2, 5),
        "len": rng.choice([4, 9, 30, 200, 3000] if tier == "quick" else [4, 9, 30, 200, 3000, 9000, 20000]),
        "pre": rng.random() < 0.65,
        "old": rng.choice(["OLD\n", "", "old content " * 40, "same-format"]),
        "buffer": rng.choice([0, 0, 1, 7, 64, 512, 4096]),
        "cmp": rng.choice(["", "", ".gz", ".bz2"]),
        "fail": None,
        "errnos": rng.randint(0, 7),
        "faults": "enumerate",
        "pairs": [],
        "bystander": rng.random() < 0.5,
        "dir_order": rng.choice(["sorted", "reverse", "s%d" % rng.randint(0, 9)]),
    }
    if site.endswith("Alignment.write") or site.endswith("SequenceCollection.write"):
        plan["fmt"] = rng.choice(SEQ_FORMATS)
        r = rng.random()
        if r < 0.15:
            plan["fail"] = "unknown_format"
        elif r < 0.25 and "SequenceCollection" in site:
            plan["fail"] = "ragged"
            plan["fmt"] = rng.choice(["phylip", "paml"])
        elif r < 0.30:
            plan["cmp"] = ".zip"
        elif r < 0.38:
            plan["fail"] = "formatter_raises"
            plan["fmt"] = "json"
    elif site == "PhyloNode.write":
        plan["fmt"] = rng.choice(TREE_FORMATS)
        if rng.random() < 0.2:
            plan["fail"] = "formatter_raises"
    elif site == "Table.write":
        plan["fmt"] = rng.choice(TABLE_FORMATS)
        plan["compress_arg"] = rng.random() < 0.2
        if plan["cmp"] == ".bz2":
            # Table.write only knows gzip: given x.tsv.bz2 it writes a gzip
            # file to x.tsv.bz2.gz.  A functional quirk, not an atomicity
            # question, so bz2 targets are not generated for tables.
            plan["cmp"] = ".gz"
        r = rng.random()
        if r < 0.12:
            plan["fail"] = "bad_format"
        elif r < 0.22:
            plan["fail"] = "writer_raises"
        elif r < 0.30:
            plan["fail"] = "writer_ok"
        elif r < 0.36:
            plan["fail"] = "unserialisable"
            plan["fmt"] = "json"
    elif site in ("DictArray.write", "DistanceMatrix.write"):
        plan["fmt"] = rng.choice(DA_FORMATS)
        if rng.random() < 0.15:
            plan["fail"] = "bad_format"
    elif site == "ScoredTreeCollection.write":
        plan["fmt"] = "trees"
        if rng.random() < 0.25:
            plan["fail"] = "formatter_raises"  # a later tree of the list fails to format
    elif site in ("atomic_write.zip", "open_.zip"):
        plan["fmt"] = "txt"
        plan["cmp"] = ".zip"
        plan["old"] = rng.choice(["archive-other", "archive-same", "archive-other"])
    elif site == "atomic_write.with":
        plan["fmt"] = "txt"
        plan["fail"] = rng.choice([None, "body_raises", "body_raises_late"])
    if tier == "thorough":
        plan["pairs"] = [[rng.randint(0, 40), rng.randint(1, 12), rng.randint(0, 3)] for _ in range(6)]
    return plan


# ---------------------------------------------------------------------------
# objects under test (built once per scenario, outside the seams)


def _seq_data(plan, ragged=False):
    import random

    r = random.Random(plan["n"] * 1000003 + plan["len"])
    out = {}
    for i in range(plan["n"]):
        ln = plan["len"] - (i if ragged else 0)
        out[f"s{i}"] = "".join(r.choice("ACGT") for _ in range(max(1, ln)))
    return out


def _tree(plan):
    from cogent3 import make_tree

    n = plan["n"] + 2
    names = [f"t{i}" for i in range(n)]
    nwk = names[0] + ":0.1"
    for i, nm in enumerate(names[1:]):
        nwk = f"({nwk},{nm}:0.{i + 1})" + (f"e{i}:0.05" if i < n - 2 else "")
    return make_tree(nwk + ";")


class _Boom(Exception):
    pass


def make_writer(plan):
    """returns (callable(path), destination file name)"""
    site, fmt, fail = plan["site"], plan.get("fmt"), plan["fail"]
    cmp = plan["cmp"]
    name = f"out.{fmt}{cmp}"

    if site in ("Alignment.write", "ArrayAlignment.write", "SequenceCollection.write",
                "new.SequenceCollection.write"):
        data = _seq_data(plan, ragged=fail == "ragged")
        if site == "Alignment.write":
            from cogent3 import make_aligned_seqs

            obj = make_aligned_seqs(data, moltype="dna", array_align=False)
        elif site == "ArrayAlignment.write":
            from cogent3 import make_aligned_seqs

            obj = make_aligned_seqs(data, moltype="dna", array_align=True)
        elif site == "SequenceCollection.write":
            from cogent3 import make_unaligned_seqs

            obj = make_unaligned_seqs(data, moltype="dna")
        else:
            from cogent3.core import new_alignment

            obj = new_alignment.make_unaligned_seqs(data, moltype="dna")
        kw = {}
        if fail == "unknown_format":
            key = "file_format" if site.startswith("new.") else "format"
            kw[key] = "nonsense"
        if fail == "formatter_raises":
            def _bad_json(*a, **k):
                raise _Boom("serialisation failed")
            obj.to_json = _bad_json
        return (lambda p: obj.write(p, **kw)), name

    if site == "PhyloNode.write":
        tree = _tree(plan)
        if fail == "formatter_raises":
            def _bad(*a, **k):
                raise _Boom("formatting failed")
            tree.get_newick = tree.get_xml = tree.to_json = _bad
        return (lambda p: tree.write(p)), name

    if site == "Table.write":
        from cogent3 import make_table

        rows = [[i, f"r{i}", i / 7] for i in range(max(1, plan["len"] // 4))]
        header = ["a", "b", "c"]
        if fail == "unserialisable":
            rows = [[i, object(), 1.0] for i in range(3)]
        if fail == "bad_format":
            rows = [[i, i] for i in range(3)]
            header = ["a", "b"]
        table = make_table(header=header, data=rows, title="T" if plan["n"] % 2 else "")
        kw = {}
        if plan.get("compress_arg"):
            kw["compress"] = True
            if cmp != ".gz":
                name = f"out.{fmt}.gz"
        if fail == "bad_format":
            kw["format"] = "bedgraph"
        if fail == "writer_raises":
            def _w(rows, has_header=True):
                raise _Boom("writer failed")
            kw["writer"] = _w
        if fail == "writer_ok":
            def _w2(rows, has_header=True):
                return ["\t".join(str(e) for e in r) for r in rows]
            kw["writer"] = _w2
        return (lambda p: table.write(p, **kw)), name

    if site in ("DictArray.write", "DistanceMatrix.write"):
        kw = {"format": "bedgraph" if fail == "bad_format" else fmt}
        if fmt == "csv":
            kw["sep"] = ","
        if site == "DictArray.write":
            from cogent3.util.dict_array import DictArrayTemplate

            k = plan["n"] + 1
            obj = DictArrayTemplate([f"r{i}" for i in range(k)], [f"c{i}" for i in range(k)]).wrap(
                [[i * k + j for j in range(k)] for i in range(k)]
            )
        else:
            from cogent3.evolve.fast_distance import DistanceMatrix

            k = plan["n"] + 1
            obj = DistanceMatrix(
                {(f"s{i}", f"s{j}"): abs(i - j) / 10 for i in range(k) for j in range(k) if i != j}
            )
        return (lambda p: obj.write(p, **kw)), name

    if site == "ScoredTreeCollection.write":
        from cogent3.phylo.tree_collection import ScoredTreeCollection

        tree = _tree(plan)
        items = [(float(i) + 0.5, tree) for i in range(max(1, plan["len"] // 30))]
        if fail == "formatter_raises":
            class _BadTree:
                def get_newick(self, **kw):
                    raise _Boom("this tree cannot be formatted")
            items.append((9.5, _BadTree()))
        coll = ScoredTreeCollection(items)
        return (lambda p: coll.write(p)), f"out.trees{cmp if cmp != '.zip' else ''}"

    text = "".join(f"line {i}\n" for i in range(max(1, plan["len"] // 3)))
    if site == "atomic_write.zip":
        from cogent3.util.io import atomic_write

        def w(p):
            member = os.path.join(os.path.dirname(p), "member.txt")
            with atomic_write(member, in_zip=p, mode="w") as f:
                f.write(text)

        return w, "out.zip"

    if site == "open_.zip":
        from cogent3.util.io import open_

        def w(p):
            with open_(p, "w") as f:
                f.write(text)

        return w, "out.txt.zip"

    if site == "atomic_write.with":
        from cogent3.util.io import atomic_write

        def w(p):
            with atomic_write(p, mode="wt") as f:
                if fail == "body_raises":
                    raise _Boom("user code failed")
                f.write(text)
                if fail == "body_raises_late":
                    raise _Boom("user code failed late")

        return w, f"out.txt{cmp if cmp != '.zip' else ''}"

    raise ValueError(site)


# ---------------------------------------------------------------------------
# oracles


def canon(name, raw):
    """decoded content of a destination, or raises if it is not a whole file"""
    if name.endswith(".gz"):
        return gzip.decompress(raw)
    if name.endswith(".bz2"):
        return bz2.decompress(raw)
    if name.endswith(".zip"):
        with zipfile.ZipFile(io.BytesIO(raw)) as z:
            bad = z.testzip()
            if bad:
                raise ValueError(f"bad member {bad}")
            return tuple(sorted((n, z.read(n)) for n in z.namelist()))
    return raw


def _old_bytes(plan, name, writer):
    """content of the destination before the write"""
    old = plan["old"]
    if name.endswith(".zip") and old.startswith("archive"):
        buf = io.BytesIO()
        with zipfile.ZipFile(buf, "w") as z:
            z.writestr("out/other.txt" if old == "archive-other" else "out/member.txt", "previous member\n")
        return buf.getvalue()
    if old == "same-format":
        return None  # produced by a clean earlier write of a different object
    return old.encode()


def role_of(rel, dest_name):
    """what a path is to the write: dest / tmp (inside a temp dir) / tmpdir / other"""
    if "->" in rel:
        rel = rel.split("->", 1)[1]
    parts = rel.split("/")
    if rel == dest_name:
        return "dest"
    if parts[0].startswith("tmp"):
        return "tmpdir" if len(parts) == 1 or (len(parts) == 2 and parts[1].startswith("tmp")) else "tmp"
    return "other"


def applicable(kind, plan_errnos, tier):
    names = simos.APPLICABLE_ERRNOS.get(kind, ())
    if not names:
        return []
    if tier == "thorough":
        return list(names)
    first = names[0]
    other = names[plan_errnos % len(names)]
    return [first] if other == first else [first, other]


class Scenario:
    def __init__(self, plan, tier):
        self.plan = plan
        self.tier = tier
        self.writer, self.dest_name = make_writer(plan)
        self.root = simos.make_sandbox("c19a")
        self.dest = os.path.join(self.root, self.dest_name)
        self.pre_tree = {}
        if plan["bystander"]:
            self.pre_tree["bystander.txt"] = b"do not touch\n"
            self.pre_tree["keepdir"] = None
            self.pre_tree["keepdir/inner.fasta"] = b">x\nACGT\n"
        if plan["pre"]:
            old = _old_bytes(plan, self.dest_name, self.writer)
            if old is None:
                old = self._same_format_old()
            self.pre_tree[self.dest_name] = old
        self.old_raw = self.pre_tree.get(self.dest_name)
        self.new_canon = None

    def _same_format_old(self):
        # a complete earlier file in the same format (different content)
        p2 = dict(self.plan, n=self.plan["n"] + 1, fail=None)
        try:
            w, name = make_writer(p2)
            self.reset({})
            w(os.path.join(self.root, name))
            with REAL["io.open"](os.path.join(self.root, name), "rb") as f:
                return f.read()
        except Exception:
            return b"OLD\n"

    def reset(self, tree=None):
        tree = self.pre_tree if tree is None else tree
        for e in REAL["os.listdir"](self.root):
            p = os.path.join(self.root, e)
            if os.path.isdir(p) and not os.path.islink(p):
                import shutil

                shutil.rmtree(p)
            else:
                REAL["os.unlink"](p)
        for rel in sorted(tree):
            p = os.path.join(self.root, rel)
            if tree[rel] is None:
                REAL["os.mkdir"](p)
            else:
                with REAL["io.open"](p, "wb") as f:
                    f.write(tree[rel])

    def execute(self, faults):
        """one simulated execution; returns (sim, outcome, exc)"""
        self.reset()
        sim = simos.SimOS(self.root, faults=faults, buffer_size=self.plan["buffer"] or None,
                          dir_order=self.plan["dir_order"])
        outcome, exc = "returned", None
        with sim:
            try:
                self.writer(self.dest)
            except simos.SimKill:
                outcome = "killed"
            except simos.HarnessError:
                raise
            except Exception as e:  # handled failure: the caller sees an exception
                outcome, exc = "raised", e
        if sim.dead:
            # the process died at the kill point: whatever ran while the
            # exception unwound (clean-up code may even have replaced SimKill
            # by an exception of its own) could not reach the disk.
            outcome, exc = "killed", None
            sim.check_no_leak()
        return sim, outcome, exc

    def dest_state(self, tree):
        raw = tree.get(self.dest_name)
        if raw == self.old_raw:
            return "old"
        if raw is None:
            return "lost"
        if self.new_canon is not None:
            try:
                if canon(self.dest_name, raw) == self.new_canon:
                    return "new"
            except Exception:
                pass
        return "torn"

    def litter(self, tree):
        extra = sorted(k for k in tree if k not in self.pre_tree and k != self.dest_name)
        changed = sorted(
            k for k in self.pre_tree
            if k != self.dest_name and tree.get(k, "missing") != self.pre_tree[k]
        )
        return extra, changed

    def close(self):
        simos.remove_sandbox(self.root)


def fault_label(sim, faults, dest_name):
    """<fault-kind>@<call-kind>:<role> for each fault that fired, in order"""
    labels = []
    for idx, kind, rel, _size, tag in sim.events:
        if tag:
            fk = tag.split(":")[0]
            labels.append(f"{fk}@{kind}:{role_of(rel, dest_name)}")
    return "+".join(labels) if labels else "none"


def check(sc: Scenario, sim, outcome, faults, res: RunResult, reference=False):
    plan = sc.plan
    tree = simos.snapshot_tree(sc.root)
    state = sc.dest_state(tree)
    label = fault_label(sim, faults, sc.dest_name)
    if plan["fail"] and not any(t for *_x, t in sim.events):
        label = f"fmt:{plan['fail']}"
    elif plan["fail"]:
        label = f"fmt:{plan['fail']}+{label}"
    cmp = plan["cmp"].lstrip(".") or "plain"
    site = plan["site"]
    replay = dict(plan, faults=[dict(f, index=i) for i, f in sorted(faults.items())])

    def cls(inv):
        return f"C19.A.{inv}/{site}:{cmp}:{label}"

    detail = (
        f"{site} -> {sc.dest_name} fmt={plan.get('fmt')} pre={'present' if plan['pre'] else 'absent'} "
        f"outcome={outcome} faults={sorted(faults.items())} dest={state} "
        f"events={sim.event_lines(sizes=False)}"
    )
    # I1
    if outcome == "returned" and not faults and not plan["fail"]:
        pass  # reference run, checked by caller (defines new content)
    if state == "lost":
        res.add(cls("dest-lost"), detail, replay)
    elif state == "torn":
        res.add(cls("dest-torn"), detail, replay)
    elif outcome == "returned" and state != "new" and not reference:
        # a normal return must leave the new content (I3)
        if not (state == "old" and sc.new_canon is not None and sc.old_raw is not None
                and _same(sc, tree)):
            res.add(cls("returned-without-new"), detail, replay)
    # I2 / I3 litter
    if outcome in ("raised", "returned"):
        cleanup_fault = False
        for idx, kind, rel, _s, tag in sim.events:
            if tag and tag.split(":")[0] == "oserror":
                role = role_of(rel, sc.dest_name)
                if kind == "rmdir" or (kind == "unlink" and role != "dest"):
                    cleanup_fault = True
        extra, changed = sc.litter(tree)
        if changed:
            res.add(cls("bystander-changed"), detail + f" changed={changed}", replay)
        if extra and not cleanup_fault:
            res.add(cls("litter"), detail + f" litter={extra}", replay)
    return state


def _same(sc, tree):
    try:
        return canon(sc.dest_name, tree[sc.dest_name]) == sc.new_canon
    except Exception:
        return False


# ---------------------------------------------------------------------------
# run


def run(plan, tier="quick") -> RunResult:
    res = RunResult()
    sc = Scenario(plan, tier)
    h = hashlib.sha256()
    try:
        if plan["faults"] != "enumerate":
            # replay of specific faults; the reference defines "new content"
            _reference(sc, res, h, record=False)
            faults = {f["index"]: {k: v for k, v in f.items() if k != "index"} for f in plan["faults"]}
            if faults:
                _one(sc, faults, res, h)
            else:
                _reference(sc, res, h, record=True)
            return _finish(res, h, plan)

        sim0 = _reference(sc, res, h, record=True)
        calls = [(idx, kind, rel) for idx, kind, rel, _s, _t in sim0.events if idx >= 0]
        mode_of = {idx: size for idx, kind, _r, size, _t in sim0.events if kind == "open"}
        res.config = "fault-free" if not calls else "faults"
        for idx, kind, rel in calls:
            _one(sc, {idx: {"kind": "kill"}}, res, h)
            for en in applicable(kind, plan["errnos"], tier):
                if kind == "open" and mode_of.get(idx) == "r+":
                    # ZipFile(mode="a") probes with an "r+b" open and, if that
                    # fails, retries as a truncating "w+b" open; one injected
                    # failure followed by a successful truncating open is not
                    # a sequence a real file system produces.
                    continue
                _one(sc, {idx: {"kind": "oserror", "errno": en}}, res, h)
            if kind == "write":
                _one(sc, {idx: {"kind": "short"}}, res, h)
        # two-fault sequences: an error, then a second fault while it is handled
        T = len(calls)
        for a, gap, what in plan.get("pairs", []):
            if not T:
                break
            i = a % T
            kind = calls[i][1]
            ens = simos.APPLICABLE_ERRNOS.get(kind, ())
            if not ens:
                continue
            first = {"kind": "oserror", "errno": ens[what % len(ens)]}
            j = i + gap
            second = {"kind": "kill"} if what % 2 == 0 else {"kind": "oserror", "errno": "EIO"}
            _one(sc, {i: first, j: second}, res, h, pair=True)
        return _finish(res, h, plan)
    finally:
        sc.close()


def _finish(res, h, plan):
    res.digest = h.hexdigest()
    res.sample = describe(plan)
    return res


def _reference(sc, res, h, record=True):
    sim, outcome, exc = sc.execute({})
    tree = simos.snapshot_tree(sc.root)
    plan = sc.plan
    if outcome == "returned":
        raw = tree.get(sc.dest_name)
        if raw is not None:
            try:
                sc.new_canon = canon(sc.dest_name, raw)
            except Exception:
                sc.new_canon = None
        if record:
            if raw is None or sc.new_canon is None:
                replay = dict(plan, faults=[])
                res.add(
                    f"C19.A.no-output/{plan['site']}:{plan['cmp'].lstrip('.') or 'plain'}:none",
                    f"fault-free write returned but {sc.dest_name} is "
                    f"{'missing' if raw is None else 'unreadable'}; events={sim.event_lines(False)}",
                    replay,
                )
    if record:
        res.executions += 1
        res.events += len(sim.events)
        check(sc, sim, outcome, {}, res, reference=True)
        if outcome == "raised":
            res.probe("handled-failure-without-injected-fault")
            res.shapes.append(_shape(sc.plan, sim, outcome))
        h.update(("\n".join(sim.event_lines()) + f"|{outcome}|{type(exc).__name__}").encode())
    return sim


def _shape(plan, sim, outcome):
    s = f"{plan['site']}|{plan.get('fmt')}|{plan['cmp']}|{int(plan['pre'])}|{plan['fail']}|{outcome}|{sim.shape()}"
    return hashlib.sha256(s.encode()).hexdigest()[:16]


def _one(sc, faults, res, h, pair=False):
    sim, outcome, exc = sc.execute(faults)
    res.executions += 1
    res.events += len(sim.events)
    for k, v in sim.fired.items():
        res.fault(k, v)
    if pair and len([1 for *_x, t in sim.events if t]) == 2:
        res.probe("second-fault-during-error-handling")
    if outcome == "killed":
        res.probe("kill")
    state = check(sc, sim, outcome, faults, res)
    res.probe(f"dest-{state}-after-{outcome}")
    if sim.fired:
        res.shapes.append(_shape(sc.plan, sim, outcome))
    h.update(("\n".join(sim.event_lines()) + f"|{outcome}|{state}|{type(exc).__name__}").encode())


def describe(plan):
    return {
        k: plan[k]
        for k in ("site", "fmt", "cmp", "pre", "old", "buffer", "fail", "n", "len", "faults")
        if k in plan
    }


MINIMISE_KW = {"protect": ("kind", "site", "errno", "fmt", "cmp", "fail", "engine", "old", "dir_order"),
               "budget_s": 20.0, "max_tries": 120}

EVIDENCE = {
    "rule": (
        "scenario = (call site, object size, format, compression, destination present/absent, old "
        "content kind, buffer size, formatter failure) drawn from the seed; per scenario a fault-free "
        "reference run records its T gated file-system calls and the scenario is re-executed once per "
        "call index with kill@k, once per (k, applicable errno) with oserror@k, once per raw write "
        "with short@k, plus sampled two-fault sequences in the thorough tier. evaluations = simulated "
        "executions. A case is non-trivial if a fault actually fired (or the write failed by itself); "
        "distinct = distinct (site, format, compression, pre-state, failure, outcome, sequence of "
        "event kinds with fault position) digests"
    ),
    "real": [
        "cogent3.util.io.atomic_write/open_ and every write() call site (real code)",
        "CPython io buffering, gzip, bz2, zipfile, shutil.rmtree, tempfile.mkdtemp (real code)",
        "kernel file system (tmpfs) - only the call boundary is intercepted",
    ],
    "stub": ["uuid.uuid4 and tempfile candidate names (deterministic counters)", "os.scandir order (plan-chosen permutation)"],
    "assumptions": [
        "process death = SIGKILL-like: completed system calls persist, user-space buffers are lost; no power-loss model (cogent3 never fsyncs)",
        "a kill is simulated in-process: after the kill point every gated call raises without effect; a post-unwind snapshot diff proves nothing reached the disk",
        "only errnos the real call can return are injected (table in simos.APPLICABLE_ERRNOS)",
        "Table.write to a .bz2 path is not generated (it writes gzip data to <path>.gz: functional quirk outside C19)",
        "no OSError is injected into an 'r+' open (only ZipFile's append-mode probe uses one; it retries a failed probe as a truncating open, an errno sequence no real file system produces)",
    ],
    "expected_probes": ["kill", "dest-old-after-killed", "dest-new-after-killed", "dest-old-after-raised",
                        "handled-failure-without-injected-fault"],
    "explanation": "C19-A enumerates every call boundary of each sampled write scenario as a crash point and as an error point.",
}
