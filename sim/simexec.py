"""simexec - a deterministic stand-in for the loky process pool and
concurrent.futures.as_completed, as used by cogent3.util.parallel.

Model (DESIGN.md appendix A): W workers start queued tasks FIFO; each task has
a plan-chosen virtual duration; the master needs a plan-chosen service time
per result, so several futures can be finished when it asks for the next one,
and - like the real as_completed, which iterates a *set* of finished futures -
one of them is delivered by plan choice.  The task body runs (deserialise ->
call -> serialise) at delivery time in the single real thread with the
process identity patched to a worker's.  Every (callable, argument) pair
crosses a pickle boundary exactly as with loky (cloudpickle out, pickle back).
"""

from __future__ import annotations

import pickle
import sys

import cloudpickle


class _Future:
    def __init__(self, index, payload, duration):
        self.index = index
        self.payload = payload
        self.duration = duration
        self.finish = None
        self._result = None
        self._exc = None
        self.done_ = False

    def result(self, timeout=None):
        if self._exc is not None:
            raise self._exc
        return self._result


class _Ctx:
    def __init__(self, pool):
        self.pool = pool

    def parent_process(self):
        return object() if self.pool.in_worker else None


class _Backend:
    def __init__(self, pool):
        self.pool = pool

    def get_context(self):
        return _Ctx(self.pool)


class _Process:
    def __init__(self, name):
        self.name = name


class SimPool:
    """owns the schedule of one simulated run"""

    def __init__(self, choices, *, cpu_count=4, durations=None, services=None, max_steps=10_000):
        self.choices = choices
        self.cpu_count = cpu_count
        self.durations = list(durations or [1])
        self.services = list(services or [0])
        self.in_worker = False
        self.worker_name = "MainProcess"
        self.delivered = []  # indices in delivery order
        self.done_sizes = []
        self.submitted = 0
        self.executors = 0
        self.max_workers_seen = []
        self.time = 0.0
        self.steps = 0
        self.max_steps = max_steps
        self.reordered = False
        self.backend = _Backend(self)
        self._installed = []

    # -- loky shim ------------------------------------------------------------
    def get_reusable_executor(self, max_workers=None, **kw):
        if max_workers is not None and max_workers <= 0:
            raise ValueError("max_workers must be greater than 0")
        self.executors += 1
        self.max_workers_seen.append(max_workers)
        return _Executor(self, max_workers or self.cpu_count)

    # -- multiprocessing shim ---------------------------------------------------
    def _cpu_count(self):
        return self.cpu_count

    def current_process(self):
        return _Process(self.worker_name)

    # -- concurrent.futures shim --------------------------------------------------
    def as_completed(self, futures, timeout=None):
        futures = list(futures)
        if not futures:
            return
        W = futures[0].executor.workers
        # worker side: all tasks were submitted up front, workers take them
        # FIFO as they become free, independently of the master
        free_at = [self.time] * W
        for f in futures:
            w = min(range(W), key=lambda k: (free_at[k], k))
            f.worker = w
            f.finish = free_at[w] + f.duration
            free_at[w] = f.finish
        # master side
        t = self.time
        pending = list(futures)
        while pending:
            self.steps += 1
            if self.steps > self.max_steps:
                raise RuntimeError("simulated pool exceeded its step cap (no progress)")
            done = [f for f in pending if f.finish <= t]
            if not done:
                t = min(f.finish for f in pending)
                done = [f for f in pending if f.finish <= t]
            self.done_sizes.append(len(done))
            f = done[self.choices.draw(len(done), "deliver")]
            pending.remove(f)
            self._execute(f)
            if self.delivered and f.index < max(self.delivered):
                self.reordered = True
            self.delivered.append(f.index)
            self.time = t
            yield f
            t += self.services[len(self.delivered) % len(self.services)]
        self.time = t

    def _execute(self, f):
        """the task body: runs in the 'worker'"""
        self.in_worker = True
        self.worker_name = f"LokyProcess-{f.worker + 1}"
        try:
            func, arg = pickle.loads(f.payload)
            value = func(arg)
            f._result = pickle.loads(pickle.dumps(value))
        except Exception as e:  # the real pool ships the exception to the master
            f._exc = e
        finally:
            self.in_worker = False
            self.worker_name = "MainProcess"
        f.done_ = True

    # -- install ------------------------------------------------------------------
    def install(self):
        import cogent3.util.parallel as par

        pool = self

        class _Loky:
            backend = pool.backend
            get_reusable_executor = staticmethod(pool.get_reusable_executor)

        class _MP:
            cpu_count = staticmethod(pool._cpu_count)
            current_process = staticmethod(pool.current_process)

        class _CF:
            as_completed = staticmethod(pool.as_completed)

        for attr, val in (("loky", _Loky), ("multiprocessing", _MP), ("concurrentfutures", _CF)):
            self._installed.append((par, attr, getattr(par, attr)))
            setattr(par, attr, val)
        return self

    def uninstall(self):
        for mod, attr, old in reversed(self._installed):
            setattr(mod, attr, old)
        self._installed = []

    def __enter__(self):
        return self.install()

    def __exit__(self, *exc):
        self.uninstall()
        return False


class _Executor:
    def __init__(self, pool, workers):
        self.pool = pool
        self.workers = max(1, workers)
        self.n = 0

    def __enter__(self):
        return self

    def __exit__(self, *exc):
        return False

    def submit(self, func, arg):
        payload = cloudpickle.dumps((func, arg))
        i = self.n
        self.n += 1
        self.pool.submitted += 1
        dur = self.pool.durations[i % len(self.pool.durations)]
        f = _Future(i, payload, dur)
        f.executor = self
        return f
