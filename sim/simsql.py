"""simsql - the SQLite statement seam, the simulated pid and the simulated clock
as seen by cogent3.app.sqlite_data_store.

The engine and the database file are the real SQLite; only the statement
boundary is intercepted: every statement that can change the database is a
gated call of the shared SimOS counter (so it can be a kill point or fail with
``OperationalError``); after a kill no statement reaches the engine.
"""

from __future__ import annotations

import datetime as _datetime
import os as _os
import sqlite3 as _sqlite3
import sys


def _kind(sql: str) -> str:
    words = sql.split()
    head = words[0].upper()
    if head in ("INSERT", "DELETE"):
        # INSERT INTO t / DELETE FROM t
        return f"{head} {words[2].split('(')[0]}"
    if head == "UPDATE":
        return f"{head} {words[1]}"
    if head == "CREATE":
        return f"CREATE {words[5].split('(')[0]}" if len(words) > 5 else "CREATE"
    return head


class _Shim:
    def __init__(self, real, **overrides):
        object.__setattr__(self, "_real", real)
        object.__setattr__(self, "_over", overrides)

    def __getattr__(self, name):
        over = object.__getattribute__(self, "_over")
        if name in over:
            return over[name]
        return getattr(object.__getattribute__(self, "_real"), name)


class SimClock:
    """discrete clock; every reading advances it by the next plan-chosen step"""

    def __init__(self, steps=None, start=1_700_000_000.0):
        self.now = start
        self.start = start
        self.steps = list(steps or [])
        self.pos = 0
        self.reads = 0

    def tick(self):
        step = self.steps[self.pos % len(self.steps)] if self.steps else 1.0
        self.pos += 1
        self.reads += 1
        self.now += step
        return self.now

    def time(self):
        return self.tick()

    @property
    def elapsed(self):
        return self.now - self.start


class SimSql:
    def __init__(self, sim, clock=None, pid=4000):
        self.sim = sim
        self.clock = clock or SimClock()
        self.pid = pid
        self.mutating = 0  # statements that can change the database
        self.mutating_by_conn_mode = {"ro": 0, "rw": 0}
        self.connections = []
        self._installed = []

    # --- shims -------------------------------------------------------------
    def _connect(self, database, *args, **kw):
        outer = self
        ro = isinstance(database, str) and "mode=ro" in database

        class SimConnection(_sqlite3.Connection):
            def execute(self, sql, params=()):
                head = sql.lstrip().split(None, 1)[0].upper()
                if head not in ("SELECT", "PRAGMA"):
                    outer.mutating += 1
                    outer.mutating_by_conn_mode["ro" if ro else "rw"] += 1
                    outer.sim.gate("sql", _kind(sql))
                elif outer.sim.dead:
                    from simos import SimKill

                    raise SimKill()
                return super().execute(sql, params)

        kw["factory"] = SimConnection
        if self.sim.dead:
            from simos import SimKill

            raise SimKill()
        conn = _sqlite3.connect(database, *args, **kw)
        self.connections.append(conn)
        return conn

    def _now(self, tz=None):
        t = self.clock.tick()
        return _datetime.datetime.fromtimestamp(t, tz=tz or _datetime.timezone.utc)

    def install(self):
        mod = sys.modules["cogent3.app.sqlite_data_store"]
        sql_shim = _Shim(_sqlite3, connect=self._connect)
        os_shim = _Shim(_os, getpid=lambda: self.pid)
        dt_class = _Shim(_datetime.datetime, now=self._now)
        dt_shim = _Shim(_datetime, datetime=dt_class)
        for attr, val in (("sqlite3", sql_shim), ("os", os_shim), ("datetime", dt_shim)):
            self._installed.append((mod, attr, getattr(mod, attr)))
            setattr(mod, attr, val)
        return self

    def uninstall(self):
        for mod, attr, old in reversed(self._installed):
            setattr(mod, attr, old)
        self._installed = []
        self.close_all()

    def close_all(self):
        for c in self.connections:
            try:
                c.close()
            except Exception:
                pass
        self.connections = []

    def __enter__(self):
        return self.install()

    def __exit__(self, *exc):
        self.uninstall()
        return False


def raw_rows(path):
    """results table read around the seams: record_id -> (is_completed, data, md5)"""
    if not _os.path.exists(path):
        return {}
    conn = _sqlite3.connect(f"file:{path}?mode=ro", uri=True)
    try:
        try:
            rows = conn.execute("SELECT record_id, is_completed, data, md5 FROM results").fetchall()
        except _sqlite3.OperationalError:
            return {}
        return {r[0]: (r[1], r[2], r[3]) for r in rows}
    finally:
        conn.close()
