"""shared types: run results, violations, plan minimiser, known findings"""

from __future__ import annotations

import copy
import hashlib
import json
import os
import random
import re
import time

VERIF_DIR = os.path.dirname(os.path.dirname(os.path.abspath(__file__)))
KNOWN_FINDINGS = os.path.join(VERIF_DIR, "known_findings.json")


def run_seed(base_seed: int, prop: str, index: int) -> int:
    """the one integer that decides run `index` of a batch"""
    h = hashlib.sha256(f"{base_seed}|{prop}|{index}".encode()).digest()
    return int.from_bytes(h[:8], "big")


def make_rng(base_seed: int, prop: str, index: int) -> random.Random:
    return random.Random(run_seed(base_seed, prop, index))


class Choices:
    """pre-drawn integers for decisions taken while a run proceeds (which
    finished future is delivered next, ...).  They live in the plan, so the
    run is a pure function of the plan; exhausted => 0."""

    def __init__(self, values):
        self.values = list(values)
        self.pos = 0
        self.used = []

    def draw(self, n: int, label: str = "") -> int:
        if n <= 1:
            return 0
        v = self.values[self.pos] if self.pos < len(self.values) else 0
        self.pos += 1
        v %= n
        self.used.append((label, v))
        return v


class Violation:
    __slots__ = ("cls", "detail", "replay")

    def __init__(self, cls: str, detail: str, replay: dict):
        self.cls = cls
        self.detail = detail
        self.replay = replay

    def to_json(self):
        return {"class": self.cls, "detail": self.detail, "replay": self.replay}


class RunResult:
    def __init__(self):
        self.violations: list[Violation] = []
        self.digest = ""
        self.shapes: list[str] = []  # one per non-trivial simulated execution
        self.executions = 0  # simulated executions inside this run
        self.faults: dict[str, int] = {}
        self.probes: dict[str, int] = {}
        self.events = 0
        self.sim_time = 0.0
        self.sample = None
        self.config = "faults"

    def fault(self, kind, n=1):
        self.faults[kind] = self.faults.get(kind, 0) + n

    def probe(self, name, n=1):
        self.probes[name] = self.probes.get(name, 0) + n

    def add(self, cls, detail, replay):
        self.violations.append(Violation(cls, detail, replay))


def slug(text: str) -> str:
    return re.sub(r"[^A-Za-z0-9_.@-]+", "_", text)[:120]


# --------------------------------------------------------------------------
# known findings


def load_known():
    if os.environ.get("VERIF_IGNORE_KNOWN"):
        # developer switch: report listed findings as violations (used to
        # regenerate the replay files kept under /verif/known_replays)
        return {"known": [], "fixed": []}
    if not os.path.exists(KNOWN_FINDINGS):
        return {"known": [], "fixed": []}
    with open(KNOWN_FINDINGS) as f:
        data = json.load(f)
    data.setdefault("known", [])
    data.setdefault("fixed", [])
    return data


def known_for(prop: str):
    data = load_known()
    return [k for k in data["known"] if k["property"] == prop]


def match_known(cls: str, entries):
    """the known-finding entry that lists this violation class, if any.

    An entry names one class (``class``) or a family of classes that differ
    only in the identifier class / name relation part (``class_regex``)."""
    for k in entries:
        if k.get("class") == cls:
            return k
        rx = k.get("class_regex")
        if rx and re.fullmatch(rx, cls):
            return k
    return None


# --------------------------------------------------------------------------
# plan minimisation: generic structural shrinking of a JSON plan


def _paths(obj, prefix=()):
    """yield (path, value) for every list and scalar inside obj"""
    if isinstance(obj, dict):
        for k in obj:
            yield from _paths(obj[k], prefix + (k,))
    elif isinstance(obj, list):
        yield prefix, obj
        for i, v in enumerate(obj):
            yield from _paths(v, prefix + (i,))
    else:
        yield prefix, obj


def _get(obj, path):
    for p in path:
        obj = obj[p]
    return obj


def _set(obj, path, value):
    for p in path[:-1]:
        obj = obj[p]
    obj[path[-1]] = value


def minimise(plan: dict, still_fails, *, budget_s=45.0, max_tries=400,
             protect=("kind", "site"), list_keys=None) -> tuple[dict, int]:
    """greedy structural shrinker.

    Deletes chunks of lists, then lowers integers, keeping a candidate iff
    ``still_fails(candidate)`` (same violation class).  Keys named in
    ``protect`` are never altered.  Returns (smaller plan, executions used).
    """
    t0 = time.time()
    tries = 0
    best = copy.deepcopy(plan)

    def ok(cand):
        nonlocal tries
        if tries >= max_tries or time.time() - t0 > budget_s:
            return False
        tries += 1
        try:
            return bool(still_fails(cand))
        except Exception:
            return False

    improved = True
    while improved and tries < max_tries and time.time() - t0 <= budget_s:
        improved = False
        # 1. shorten lists
        for path, value in list(_paths(best)):
            if not isinstance(value, list) or not value:
                continue
            if path and path[-1] in protect:
                continue
            if list_keys is not None and (not path or path[-1] not in list_keys):
                continue
            try:
                cur = _get(best, path)
            except (KeyError, IndexError, TypeError):
                continue
            if not isinstance(cur, list):
                continue
            chunk = max(1, len(cur) // 2)
            while chunk >= 1 and cur:
                i = 0
                while i < len(cur):
                    cand = copy.deepcopy(best)
                    lst = _get(cand, path)
                    del lst[i:i + chunk]
                    if ok(cand):
                        best = cand
                        cur = _get(best, path)
                        improved = True
                    else:
                        i += chunk
                if chunk == 1:
                    break
                chunk //= 2
        # 2. lower integers
        for path, value in list(_paths(best)):
            if isinstance(value, bool) or not isinstance(value, int) or value == 0:
                continue
            if path and path[-1] in protect:
                continue
            try:
                cur = _get(best, path)
            except (KeyError, IndexError, TypeError):
                continue
            if cur != value:
                continue
            for new in (0, value // 2, value - 1):
                if new == value or new < 0:
                    continue
                cand = copy.deepcopy(best)
                _set(cand, path, new)
                if ok(cand):
                    best = cand
                    improved = True
                    break
    return best, tries


def dumps(obj) -> str:
    return json.dumps(obj, sort_keys=True, separators=(",", ":"))
