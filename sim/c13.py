"""C13: data stores hold exactly what was written, record by record.

A run is a plan-generated history of store operations (write, write
not-completed, write log, drop, unlock, close, restart in a chosen mode)
over a small adversarial identifier pool, executed against the real
DataStoreDirectory / DataStoreSqlite on the intercepted file system and
SQLite statement boundary, and compared op by op with a dictionary model.
After every op the live handle *and* a freshly opened read-only handle are
observed.  "Restart" throws away every Python object (the volatile member
caches) and re-opens the same durable state under a new simulated pid.
"""

from __future__ import annotations

import hashlib
import os

import simos
import simsql
from core import RunResult

SUFFIXES = ("fasta", "fa", "txt", "json", "tsv", "fasta", "fa.gz")


def md5hex(data):
    if isinstance(data, str):
        data = data.encode("utf-8")
    return hashlib.md5(data).hexdigest()


# ---------------------------------------------------------------------------
# generation


def _id_pool(rng, suffix, idclass):
    stems = []
    base = rng.choice(["a", "b"])
    # chains of suffix/prefix related stems
    stems.append(base)
    stems.append(rng.choice(["a", "b"]) + base)  # base is a suffix of this
    stems.append(base + rng.choice(["a", "b"]))  # base is a prefix of this
    stems.append(rng.choice(["a", "b"]) + stems[1])
    stems.append("".join(rng.choice("ab") for _ in range(rng.randint(1, 3))))
    if idclass == "suffix-text":
        stems += [f"{suffix}1", f"x_{suffix}", f"a{suffix}", suffix, f"a.{suffix}.b", f"A.{suffix.upper()}", f"b.{suffix}.gz"]
    elif idclass == "dotted":
        stems += ["x.1", "x.2", "a.b"]
    elif idclass == "wild":
        stems += ["A", "a b", "a-b", "a_b", "1"]
    out = []
    for s in stems:
        if s not in out:
            out.append(s)
    rng.shuffle(out)
    return out[: rng.randint(3, 6)]


EXOTIC = ("caf\u00e9 \u2265 1\n", "line1\r\nline2\r\n", "no newline at end", "tab\tsep\n\n\n",
          "\u00e9" * 150 + "\n", "ascii first " * 12 + "then \u00fc\u00df late\n")


def _payload(rng, i, ident, as_bytes=False, exotic=False):
    kind = rng.random()
    if exotic and kind < 0.5:
        text = f"{i}:{ident}:" + EXOTIC[rng.randrange(len(EXOTIC))]
        return {"b": text} if as_bytes else text
    if kind < 0.06:
        text = ""
    elif kind < 0.5:
        text = f"{i}:{ident}\n"
    elif kind < 0.9:
        text = f">{ident}\nACGT{i}\n>z\nTTTT\n"
    else:
        text = f"{i}:{ident}:" + "x" * rng.randint(1, 9000)
    if as_bytes:
        return {"b": text}
    return text


def gen(rng, tier, index):
    backend = ("dir", "sqlite", "dir", "sqlite", "dir", "sqlite-mem")[index % 6]
    suffix = rng.choice(SUFFIXES)
    r = rng.random()
    idclass = "plain" if r < 0.66 else "suffix-text" if r < 0.84 else "dotted" if r < 0.9 else "wild" if r < 0.94 \
        else "exotic-payload"
    stems = _id_pool(rng, suffix, idclass)
    n_ops = rng.randint(3, 12 if tier == "quick" else 30)
    ops = []
    mode = rng.choice(["w", "w", "a"])
    for i in range(n_ops):
        r = rng.random()
        stem = rng.choice(stems)
        form = rng.random()
        if backend == "dir":
            ident = stem if form < 0.5 else f"{stem}.{suffix}"
        else:
            ident = stem if form < 0.8 else f"{stem}.{suffix}"
        as_bytes = backend != "dir" and rng.random() < 0.3
        if r < 0.36:
            ops.append({"op": "write", "id": ident, "data": _payload(rng, i, stem, as_bytes, idclass == "exotic-payload")})
        elif r < 0.60:
            if backend == "dir":
                nid = f"{stem}.json" if rng.random() < 0.8 else ident
            else:
                nid = ident
            ops.append({"op": "write_nc", "id": nid, "data": _payload(rng, i, "NC-" + stem, as_bytes, idclass == "exotic-payload")})
        elif r < 0.66:
            # log names unrelated to, equal to, or containing a record's stem
            lname = rng.choice([f"log{i}.log", f"{stem}.log", f"{stem}.{suffix}.log", "run.log", stem, ident])
            ops.append({"op": "write_log", "id": lname, "data": f"log {i} {stem}\n"})
        elif r < 0.78:
            if rng.random() < 0.3:
                ops.append({"op": "drop_nc", "id": None})
            else:
                ops.append({"op": "drop_nc", "id": ident})
        elif r < 0.82 and backend != "dir":
            ops.append({"op": "unlock", "force": rng.random() < 0.5})
        elif r < 0.94 and backend != "sqlite-mem":
            ops.append({"op": "restart", "mode": rng.choice(["r", "w", "a", "a", "w"]),
                        "close": rng.random() < 0.5})
        else:
            ops.append({"op": "contains", "id": ident})
    # observing the live handle primes its member caches, which can hide a
    # stale cache: after some ops (most restarts) only the fresh handle looks
    for o in ops:
        o["peek"] = rng.random() < (0.3 if o["op"] == "restart" else 0.6)
    if ops:
        ops[-1]["peek"] = True
    clock = rng.choice([[1.0], [1.0], [0.0, 0.0, 1.0], [0.0], [3600.0, 0.0]])  # ties and jumps
    return {
        "engine": "c13",
        "clock": clock,
        "backend": backend,
        "suffix": suffix,
        "idclass": idclass,
        "mode": mode,
        "ops": ops,
        "dir_order": rng.choice(["sorted", "reverse", "s%d" % rng.randint(0, 9)]),
        # stores made by calling the class with the mode as a string, not through open_data_store
        "ctor": rng.random() < 0.3,
    }


# ---------------------------------------------------------------------------
# the model


class Model:
    """the dictionary model of the statement"""

    def __init__(self, backend, suffix):
        self.backend = backend
        self.suffix = suffix
        self.completed = {}
        self.nc = {}
        self.md5_tainted = set()  # names whose md5 file is known to be shared (C13-K1)
        self.md5_shared_new = set()

    def key(self, ident):
        """canonical record identifier"""
        if self.backend != "dir":
            return ident
        for sfx in (f".{self.suffix}", ".json"):
            if ident.endswith(sfx) and len(ident) > len(sfx):
                return ident[: -len(sfx)]
        return ident

    def copy(self):
        m = Model(self.backend, self.suffix)
        m.completed = dict(self.completed)
        m.nc = dict(self.nc)
        return m


# ---------------------------------------------------------------------------
# the system under test


class Store:
    def __init__(self, plan, root, sim, sql):
        self.plan = plan
        self.backend = plan["backend"]
        self.suffix = plan["suffix"]
        self.sim = sim
        self.sql = sql
        if self.backend == "dir":
            self.path = os.path.join(root, "store")
        elif self.backend == "sqlite":
            self.path = os.path.join(root, "store.sqlitedb")
        else:
            self.path = ":memory:"
        self.ds = None
        self.mode = None

    def open(self, mode):
        from cogent3.app.io import open_data_store

        kw = {"suffix": self.suffix} if self.backend == "dir" else {}
        self.ds = self._make(mode, kw)
        self.mode = mode
        if self.backend != "dir":
            self.ds.db  # connect now (locks the store, as first use would)
        return self.ds

    def observer(self):
        """a fresh read-only handle on the same durable state"""
        from cogent3.app.io import open_data_store

        if self.backend == "sqlite-mem":
            return None
        if self.backend == "dir" and not os.path.isdir(self.path):
            return None
        if self.backend == "sqlite" and not os.path.exists(self.path):
            return None
        kw = {"suffix": self.suffix} if self.backend == "dir" else {}
        n0 = self.sim.ncalls
        ob = self._make("r", kw)
        self.ro_open_calls = self.sim.ncalls - n0
        return ob

    def _make(self, mode, kw):
        from cogent3.app.io import open_data_store

        if self.plan.get("ctor") and self.backend != "sqlite-mem":
            from cogent3.app.data_store import DataStoreDirectory
            from cogent3.app.sqlite_data_store import DataStoreSqlite

            cls = DataStoreDirectory if self.backend == "dir" else DataStoreSqlite
            return cls(self.path, mode=mode, **kw)
        return open_data_store(self.path, mode=mode, **kw)

    def key_of_member(self, unique_id, completed):
        uid = str(unique_id)
        if self.backend != "dir":
            return uid
        name = uid.split("/")[-1]
        sfx = f".{self.suffix}" if completed else ".json"
        return name[: -len(sfx)] if name.endswith(sfx) else name


def observe(store: Store, ds):
    """what a handle reports: (completed {key: (data, md5)}, nc {...}, dup flags, validate dict)"""
    out = {"completed": {}, "nc": {}, "dups": [], "errors": []}
    for label, members, comp in (("completed", ds.completed, True), ("nc", ds.not_completed, False)):
        seen = {}
        for m in list(members):
            k = store.key_of_member(m.unique_id, comp)
            if k in seen:
                out["dups"].append(f"{label}:{k}")
                continue
            try:
                data = m.read()
            except Exception as e:
                data = f"<read failed: {type(e).__name__}>"
                out["errors"].append(f"read {label}:{k}: {type(e).__name__}: {e}")
            try:
                md5 = ds.md5(str(m.unique_id))
            except Exception as e:
                md5 = f"<md5 failed: {type(e).__name__}>"
            seen[k] = (data, md5)
        out[label] = seen
    try:
        t = ds.validate()
        out["validate"] = {str(r[0]): r[1] for r in t.to_list()}
    except Exception as e:
        out["validate"] = {"error": f"{type(e).__name__}: {e}"}
    return out


def data_of(payload):
    if isinstance(payload, dict):
        return payload["b"].encode()
    return payload


def same_data(got, want):
    if isinstance(want, bytes) and isinstance(got, str):
        return got.encode() == want
    if isinstance(want, str) and isinstance(got, bytes):
        return got == want.encode()
    return got == want


# ---------------------------------------------------------------------------


def relation(a, b):
    if a == b:
        return "same"
    if b.endswith(a):
        return "suffix-of"
    if b.startswith(a):
        return "prefix-of"
    if a.endswith(b):
        return "has-suffix"
    if a.startswith(b):
        return "has-prefix"
    return "unrelated"


def compare(store, model, obs, who, opdesc, res, replay, idclass):
    """membership, content, md5, duplicates, validate"""
    tainted = getattr(model, "md5_tainted", set())
    be = store.backend if store.backend != "sqlite-mem" else "sqlite"
    opkind, _, rel = opdesc.partition("|")
    ic = "" if idclass == "plain" else f":{idclass}"
    tag = f"{be}{ic}:{opkind}"
    n_before = len(res.violations)
    for label, want in (("completed", model.completed), ("nc", model.nc)):
        got = obs[label]
        missing = sorted(set(want) - set(got))
        extra = sorted(set(got) - set(want))
        if missing or extra:
            res.add(
                f"C13.membership/{tag}:{rel}:{label}:{'missing' if missing else 'extra'}",
                f"[{who}] after {opdesc}: {label} missing={missing} extra={extra} "
                f"model={sorted(want)} store={sorted(got)}",
                replay,
            )
        for k in sorted(set(want) & set(got)):
            data, md5 = got[k]
            if not same_data(data, want[k]):
                cls = f"C13.content/{tag}:{label}"
                w = want[k]
                if isinstance(w, str) and "\r" in w and same_data(data, w.replace("\r\n", "\n")):
                    cls = f"C13.content/{be}:crlf-translated"  # cause identified: universal newlines on read
                res.add(
                    cls,
                    f"[{who}] after {opdesc}: {label} record {k!r} reads {str(data)[:60]!r} "
                    f"but {str(want[k])[:60]!r} was written",
                    replay,
                )
            elif k in tainted:
                res.probe("md5-unchecked:shared-md5-file")
            elif md5 != md5hex(want[k]):
                if (be == "dir" and label == "completed" and k in model.nc and k in obs["nc"]
                        and md5 == md5hex(model.nc[k])):
                    # cause identified (known finding C13-K1): the completed and the
                    # not-completed record of one name share md5/<name>.txt.  Reported
                    # once; the history continues with this name's checksum unchecked
                    # until a write() of it succeeds, everything else stays checked
                    model.md5_shared_new.add(k)
                res.add(
                    f"C13.md5/{tag}:{label}",
                    f"[{who}] after {opdesc}: md5 of {label} record {k!r} is {md5!r}, expected {md5hex(want[k])}",
                    replay,
                )
    if obs["dups"]:
        res.add(f"C13.duplicate-member/{tag}", f"[{who}] after {opdesc}: duplicate members {obs['dups']}", replay)
    v = obs["validate"]
    if len(res.violations) > n_before:
        return
    if tainted & (set(obs["completed"]) | set(obs["nc"])):
        res.probe("validate-unchecked:shared-md5-file")
        return
    if not obs["dups"] and "error" not in v:
        n = len(obs["completed"]) + len(obs["nc"])
        if v.get("Num md5sum incorrect") or v.get("Num md5sum missing") or v.get("Num md5sum correct") != n:
            res.add(f"C13.validate/{tag}", f"[{who}] after {opdesc}: validate() reports {v} for {n} members", replay)
    elif "error" in v:
        res.add(f"C13.validate-raised/{tag}", f"[{who}] after {opdesc}: validate() raised {v['error']}", replay)


def files_of(store, key):
    s = store.suffix
    return {f"store/{key}.{s}", f"store/not_completed/{key}.json", f"store/md5/{key}.txt"}


def run(plan, tier="quick") -> RunResult:
    res = RunResult()
    root = simos.make_sandbox("c13")
    sim = simos.SimOS(root, dir_order=plan["dir_order"])
    sql = simsql.SimSql(sim, clock=simsql.SimClock(steps=plan.get("clock") or [1.0]))
    backend = plan["backend"]
    be = "sqlite" if backend != "dir" else "dir"
    store = Store(plan, root, sim, sql)
    model = Model(backend, plan["suffix"])
    idclass = plan["idclass"]
    replay = plan
    res.config = "with-restart" if any(o["op"] == "restart" for o in plan["ops"]) else "single-session"
    if plan.get("ctor"):
        res.probe("store-made-by-class-constructor")
    if "." in plan["suffix"]:
        res.probe("compressed-store-suffix")
    nontrivial = False
    n_viol = 0
    try:
        import cogent3.app.sqlite_data_store  # noqa: F401  (module must exist before the shim)

        simos.set_pid(sql.pid)
        with sim, sql:
            try:
                store.open(plan["mode"])
            except Exception as e:
                res.add(f"C13.open-raised/{be}:{type(e).__name__}", f"open mode={plan['mode']} raised {e!r}", replay)
                return res
            for i, op in enumerate(plan["ops"]):
                name = op["op"]
                ds = store.ds
                mode = store.mode
                before = model.copy()
                model.md5_shared_new = set()
                tree_before = simos.snapshot_tree(root) if backend == "dir" else None
                rows_before = simsql.raw_rows(store.path) if backend == "sqlite" else None
                ev0, mut0 = sim.ncalls, sql.mutating_by_conn_mode["rw"]
                raised = None
                key = model.key(op["id"]) if op.get("id") else None
                rel = "none"
                if key is not None:
                    others = [k for k in list(model.completed) + list(model.nc) if k != key]
                    rels = sorted({relation(key, o) for o in others} - {"unrelated"})
                    rel = rels[0] if rels else ("alone" if not others else "unrelated")
                opdesc = name
                try:
                    if name == "write":
                        ds.write(unique_id=op["id"], data=data_of(op["data"]))
                    elif name == "write_nc":
                        ds.write_not_completed(unique_id=op["id"], data=data_of(op["data"]))
                    elif name == "write_log":
                        ds.write_log(unique_id=op["id"], data=op["data"])
                    elif name == "drop_nc":
                        if op["id"] is None:
                            ds.drop_not_completed()
                        else:
                            ds.drop_not_completed(unique_id=op["id"])
                    elif name == "unlock":
                        ds.unlock(force=op["force"])
                    elif name == "contains":
                        got = op["id"] in ds
                        want = key in model.completed or (be == "sqlite" and key in model.nc)
                        if be == "dir" and bool(got) != want:
                            res.add(
                                f"C13.contains/{be}" + ("" if idclass == "plain" else f":{idclass}") + f":{rel}",
                                f"{op['id']!r} in store -> {got}, model completed={sorted(model.completed)}",
                                replay,
                            )
                    elif name == "restart":
                        nontrivial = True
                        res.probe("restart")
                        if op["close"] and hasattr(ds, "close"):
                            ds.close()
                        store.ds = None
                        sql.close_all()
                        sql.pid += 1
                        simos.set_pid(sql.pid)
                        n_open0 = sim.ncalls
                        try:
                            store.open(op["mode"])
                            if op["mode"] == "r" and backend == "dir" and sim.ncalls != n_open0:
                                res.add(f"C13.readonly-mutated/{be}:open",
                                        f"opening the store read-only issued {sim.ncalls - n_open0} mutating "
                                        f"file-system calls: {sim.event_lines(False)[-4:]}", replay)
                        except OSError as e:
                            # documented: a locked SQLite store refuses mode w
                            if be == "sqlite" and op["mode"] == "w" and "locked" in str(e):
                                res.probe("locked-store-refused-overwrite")
                                sql.close_all()
                                store.open("a")
                            else:
                                raise
                        if not os.path.exists(store.path) and store.mode == "r":
                            pass
                except Exception as e:  # noqa: BLE001
                    raised = e
                # statements on a mode=ro connection are refused by SQLite itself
                mutated = (sim.ncalls - ev0) + (sql.mutating_by_conn_mode["rw"] - mut0)
                if backend != "dir":
                    mutated = sql.mutating_by_conn_mode["rw"] - mut0

                # ---- advance the model -----------------------------------
                if name == "restart" and raised is not None:
                    # e.g. mode r on a store that does not exist yet: nothing opened
                    if isinstance(raised, (OSError, AssertionError)) or "unable to open" in str(raised):
                        res.probe("reopen-refused")
                        sql.close_all()
                        try:
                            store.open("a")
                        except Exception as e2:
                            res.add(f"C13.open-raised/{be}:{type(e2).__name__}", f"re-open raised {e2!r}", replay)
                            return res
                        raised = None
                    else:
                        res.add(f"C13.open-raised/{be}:{type(raised).__name__}",
                                f"restart mode={op['mode']} raised {raised!r}", replay)
                        return res
                elif mode == "r" and name in ("write", "write_nc", "write_log", "drop_nc"):
                    res.probe("mutator-on-readonly")
                    nontrivial = True
                    if mutated:
                        res.add(
                            f"C13.readonly-mutated/{be}:{name}",
                            f"read-only handle issued {mutated} mutating calls during {name}({op.get('id')!r}); "
                            f"events={sim.event_lines(False)[-6:]}",
                            replay,
                        )
                    if raised is None and name != "drop_nc":
                        res.add(f"C13.readonly-accepted/{be}:{name}", f"{name} did not raise on a read-only store", replay)
                elif name == "write":
                    existed = key in model.completed
                    if mode == "a" and existed:
                        res.probe("append-refuses-overwrite")
                        if raised is None:
                            res.add(
                                f"C13.append-overwrote/{be}:{idclass}",
                                f"append-mode write({op['id']!r}) of an existing record did not raise", replay,
                            )
                    elif raised is not None and mode == "a" and key in model.nc and be == "sqlite":
                        res.probe("corner:append-write-over-nc-refused")
                    elif raised is not None:
                        res.probe(f"refused:write:{type(raised).__name__}")
                    else:
                        if key in model.nc:
                            res.probe("write-retired-not-completed")
                            nontrivial = True
                        if existed:
                            res.probe("overwrite-existing")
                        model.completed[key] = data_of(op["data"])
                        model.nc.pop(key, None)
                        model.md5_tainted.discard(key)
                    state = "existing" if existed else "retires-nc" if key in before.nc else "new"
                    opdesc = f"write:{state}|{rel}"
                elif name == "write_nc":
                    if raised is not None:
                        if (key in model.completed or key in model.nc) and mode == "a":
                            res.probe("corner:append-write_nc-existing-refused")
                        else:
                            res.probe(f"refused:write_nc:{type(raised).__name__}")
                    else:
                        if key in model.completed:
                            # undocumented corner: accept "both exist" or "completed replaced"
                            res.probe("corner:write_nc-of-completed-id")
                            model.nc[key] = data_of(op["data"])
                            model._ambiguous = key
                        else:
                            if key in model.nc:
                                res.probe("write_nc-repeated")
                            model.nc[key] = data_of(op["data"])
                    state = "over-completed" if key in before.completed else "repeat" if key in before.nc else "new"
                    opdesc = f"write_nc:{state}|{rel}"
                elif name == "drop_nc":
                    if raised is not None:
                        res.probe(f"refused:drop_nc:{type(raised).__name__}")
                    elif key is None:
                        model.nc.clear()
                    else:
                        if key in model.nc:
                            res.probe("drop-existing")
                        model.nc.pop(key, None)
                    state = "all" if key is None else "hit" if key in before.nc else "miss"
                    opdesc = f"drop_nc:{state}|{rel}"
                elif raised is not None and name in ("write_log", "unlock", "contains"):
                    res.probe(f"refused:{name}:{type(raised).__name__}")

                if mode == "r" or (mode == "a" and name == "write" and key in before.completed):
                    model.completed, model.nc = before.completed, before.nc

                # ---- the undocumented corner: write_nc of a completed id ---
                amb = getattr(model, "_ambiguous", None)
                amb_checked = amb is not None
                if amb is not None:
                    obs_live = observe(store, store.ds)
                    if amb not in obs_live["completed"]:
                        model.completed.pop(amb, None)  # "completed replaced by failure record"
                    elif amb not in obs_live["nc"]:
                        # kept as completed: then the completed content must be the old one
                        model.nc.pop(amb, None)
                    model._ambiguous = None

                # ---- observe ------------------------------------------------
                if op.get("peek", True) or amb_checked:
                    live = observe(store, store.ds)
                    compare(store, model, live, "live", opdesc, res, replay, idclass)
                else:
                    res.probe("live-handle-not-observed")
                if backend != "sqlite-mem":
                    ob = store.observer()
                    if ob is not None and backend == "dir" and getattr(store, "ro_open_calls", 0):
                        res.add(f"C13.readonly-mutated/{be}:open",
                                f"opening a fresh read-only handle issued {store.ro_open_calls} mutating "
                                f"file-system calls: {sim.event_lines(False)[-4:]}", replay)
                    if ob is not None:
                        fresh = observe(store, ob)
                        if hasattr(ob, "close"):
                            ob.close()
                        compare(store, model, fresh, "fresh", opdesc, res, replay, idclass)
                elif False:
                    pass

                # ---- cross-invariant: no other record touched ----------------
                if backend == "dir" and key is not None and name in ("write", "write_nc", "drop_nc"):
                    tree_after = simos.snapshot_tree(root)
                    allowed = files_of(store, key)
                    sfx = store.suffix

                    def is_record(p):
                        # a path that holds (part of) some identifier's record; temporary or
                        # staging files an implementation may use are not records
                        parts = p.split("/")
                        if len(parts) == 2 and parts[0] == "store":
                            return parts[1].endswith(f".{sfx}") and not parts[1].startswith((".", "tmp"))
                        if len(parts) == 3 and parts[0] == "store" and parts[1] == "not_completed":
                            return parts[2].endswith(".json")
                        if len(parts) == 3 and parts[0] == "store" and parts[1] == "md5":
                            return parts[2].endswith(".txt")
                        return False

                    changed = sorted(
                        p for p in set(tree_before) | set(tree_after)
                        if tree_before.get(p, "absent") != tree_after.get(p, "absent")
                        and p not in allowed and is_record(p)
                    )
                    if changed and mode != "r":
                        res.add(
                            f"C13.other-record-changed/{be}" + ("" if idclass == "plain" else f":{idclass}") + f":{opdesc.replace('|', ':')}",
                            f"{name}({op['id']!r}) changed files of other records: {changed}", replay,
                        )
                if backend == "sqlite" and key is not None and name in ("write", "write_nc", "drop_nc"):
                    rows_after = simsql.raw_rows(store.path)
                    changed = sorted(
                        k for k in set(rows_before) | set(rows_after)
                        if k != key and rows_before.get(k) != rows_after.get(k)
                    )
                    if changed:
                        res.add(
                            f"C13.other-record-changed/{be}" + ("" if idclass == "plain" else f":{idclass}") + f":{opdesc.replace('|', ':')}",
                            f"{name}({op['id']!r}) changed rows of other records: {changed}", replay,
                        )
                if len(res.violations) > n_viol:
                    new = res.violations[n_viol:]
                    if (new and model.md5_shared_new and all(
                            v.cls.startswith("C13.md5/dir") and v.cls.endswith(":completed") for v in new)):
                        # only the shared-md5-file corner: carry on past the known finding
                        model.md5_tainted |= model.md5_shared_new
                        model.md5_shared_new = set()
                        n_viol = len(res.violations)
                        res.probe("continued-past-shared-md5-file")
                        continue
                    break
                model.md5_tainted &= set(model.completed) | set(model.nc)
    finally:
        sql.close_all()
        simos.set_pid(None)
        simos.remove_sandbox(root)
    res.executions = 1
    res.events = len(sim.events) + sql.mutating
    res.sim_time = sql.clock.elapsed
    h = hashlib.sha256("\n".join(sim.event_lines()).encode())
    h.update(repr(sorted((k, md5hex(v)) for k, v in model.completed.items())).encode())
    h.update(repr(sorted((k, md5hex(v)) for k, v in model.nc.items())).encode())
    res.digest = h.hexdigest()
    relkinds = sorted(p for p in res.probes)
    if nontrivial or len(plan["ops"]) > 1:
        shape = f"{backend}|{plan['mode']}|{idclass}|" + ";".join(
            o["op"] + (":" + o.get("mode", "") if o["op"] == "restart" else "") for o in plan["ops"]
        ) + "|" + ",".join(relkinds)
        res.shapes.append(hashlib.sha256(shape.encode()).hexdigest()[:16])
    res.sample = describe(plan)
    return res


def describe(plan):
    ops = []
    for o in plan["ops"]:
        d = {k: v for k, v in o.items() if k != "data"}
        if "data" in o:
            d["data"] = str(o["data"])[:24]
        ops.append(d)
    return {"backend": plan["backend"], "suffix": plan["suffix"], "mode": plan["mode"],
            "idclass": plan["idclass"], "ops": ops}


MINIMISE_KW = {"protect": ("op", "engine", "backend", "suffix", "idclass", "dir_order", "id", "data", "mode"),
               "list_keys": ("ops",), "budget_s": 30.0, "max_tries": 200}

# the first N runs are repeated in interpreters with another PYTHONHASHSEED
CROSS_HASHSEED = 400

EVIDENCE = {
    "rule": (
        "history = 3-12 (quick) / 3-30 (thorough) store operations over a pool of 3-6 identifiers whose stems are "
        "suffixes/prefixes of one another (plus stems containing the store suffix text, dotted and odd stems in "
        "separately labelled classes), each with or without the format suffix; backend, store suffix, initial mode and "
        "directory order drawn from the seed. After every op the live handle and a freshly opened read-only handle are "
        "compared with the dictionary model (membership, content, md5, validate, duplicates) and the seam's own "
        "before/after snapshot checks that no other record's files/rows changed and that a read-only handle issued no "
        "mutating call. A history is non-trivial if it has more than one op; distinct = distinct (backend, mode, id "
        "class, op-kind sequence with restart modes, set of probes hit) digests"
    ),
    "real": [
        "cogent3.app.data_store.DataStoreDirectory, cogent3.app.sqlite_data_store.DataStoreSqlite, open_data_store (real code)",
        "SQLite engine and database file (real), kernel file system (tmpfs)",
    ],
    "stub": ["os.getpid / datetime.now as seen by sqlite_data_store (simulated pid per restart, discrete clock)",
             "os.scandir order (plan-chosen permutation)"],
    "assumptions": [
        "restart = every Python object of the run is dropped (member caches are volatile), durable files/rows survive",
        "log membership is not asserted (the statement compares completed and not-completed records)",
        "undocumented corners are accepted either way if the state stays consistent with the outcome: write_not_completed of an already completed id; append-mode write over a not-completed-only id; reopening a locked SQLite store with mode w",
    ],
    "expected_probes": ["restart", "write-retired-not-completed", "append-refuses-overwrite", "mutator-on-readonly",
                        "drop-existing", "overwrite-existing", "write_nc-repeated"],
    "explanation": "C13 drives real stores through generated histories with restarts and compares with a dictionary model after every step.",
}
