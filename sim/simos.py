"""simos - the file-system seam of the simulator.

Everything cogent3 (and the stdlib helpers it uses: pathlib, shutil, tempfile,
gzip, bz2, zipfile) does to a path under the sandbox root that *changes* the
file system goes through ``SimOS.gate`` first.  The gate is where the
simulator counts the call, records the event, and injects the fault the plan
asks for at that call index:

* ``kill``      the process dies *instead of* performing the call.  Modelled
                in-process: a snapshot of the sandbox is taken, ``dead`` is
                set and ``SimKill`` (a BaseException) is raised; from then on
                every gated call raises ``SimKill`` without touching the
                disk, so whatever ``finally``/``__exit__``/``except`` code
                runs while the exception unwinds cannot change anything, and
                user-space buffers are never flushed.
* ``oserror``   the call raises ``OSError(errno)`` and has no effect.
* ``short``     (raw write only) the call writes a prefix and returns its
                length, as the OS may.

The file system itself is the real kernel one (a tmpfs directory); only the
call boundary is intercepted.  Nothing here draws random numbers or reads a
clock: all choices come from the plan.
"""

from __future__ import annotations

import builtins
import bz2
import errno as _errno
import hashlib
import io
import os
import shutil
import sys
import tempfile
import uuid


# the pid of the simulated process, while one is alive (None: the real pid).
# os.getpid is replaced once, before cogent3 is imported (install_pid_hook), so
# that every binding the code under test takes of it ("from os import getpid")
# sees a new pid after a simulated restart.
CURRENT_PID = None
_real_getpid = os.getpid


def _sim_getpid():
    return CURRENT_PID if CURRENT_PID is not None else _real_getpid()


# The SimOS whose run is in progress (None: pass everything through).  The code
# under test may bind file-system functions at import time ("from os import
# link, remove", "from uuid import uuid4"); install_hooks() therefore replaces
# them once, before cogent3 is imported, by dispatchers that consult ACTIVE.
ACTIVE = None
_HOOKS = (
    ("builtins", "open", "_open"), ("io", "open", "_open"), ("bz2", "_builtin_open", "_open"),
    ("os", "mkdir", "_mkdir"), ("os", "rmdir", "_rmdir"), ("os", "unlink", "_unlink"),
    ("os", "remove", "_unlink"), ("os", "rename", "_rename"), ("os", "replace", "_replace"),
    ("os", "scandir", "_scandir"), ("os", "listdir", "_listdir"), ("os", "truncate", "_truncate"),
    ("os", "link", "_link"), ("os", "symlink", "_symlink"), ("os", "open", "_os_open"),
    ("os", "write", "_os_write"), ("os", "fsync", "_os_fsync"), ("os", "close", "_os_close"),
    ("uuid", "uuid4", "_uuid4"), ("tempfile", "_get_candidate_names", "_candidate_names"),
)


def _dispatcher(real, method):
    def call(*a, **kw):
        sim = ACTIVE
        if sim is None:
            return real(*a, **kw)
        return getattr(sim, method)(*a, **kw)

    call.__name__ = getattr(real, "__name__", method)
    return call


def install_hooks():
    """once per process, before the code under test is imported"""
    mods = {"builtins": builtins, "io": io, "bz2": bz2, "os": os, "uuid": uuid, "tempfile": tempfile}
    for modname, attr, method in _HOOKS:
        setattr(mods[modname], attr, _dispatcher(getattr(mods[modname], attr), method))
    os.getpid = _sim_getpid


def install_pid_hook():
    os.getpid = _sim_getpid


def set_pid(pid):
    global CURRENT_PID
    CURRENT_PID = pid


class SimKill(BaseException):
    """the simulated process died at a gated call"""


class HarnessError(Exception):
    """the simulator itself is broken (never a verdict about cogent3)"""


_real = {
    "builtins.open": builtins.open,
    "io.open": io.open,
    "bz2._builtin_open": bz2._builtin_open,
    "os.mkdir": os.mkdir,
    "os.rmdir": os.rmdir,
    "os.unlink": os.unlink,
    "os.remove": os.remove,
    "os.rename": os.rename,
    "os.replace": os.replace,
    "os.scandir": os.scandir,
    "os.listdir": os.listdir,
    "os.truncate": os.truncate,
    "os.link": os.link,
    "os.symlink": os.symlink,
    "os.write": os.write,
    "os.fsync": os.fsync,
    "os.close": os.close,
    "os.fdopen": os.fdopen,
    "os.open": os.open,
    "uuid.uuid4": uuid.uuid4,
    "tempfile._get_candidate_names": tempfile._get_candidate_names,
    "shutil._use_fd_functions": shutil._use_fd_functions,
    "shutil._USE_CP_SENDFILE": shutil._USE_CP_SENDFILE,
}

# errnos each kind of call can really return (see DESIGN.md 2.2): verdicts
# must not rest on impossible failures.
APPLICABLE_ERRNOS = {
    "open": ("ENOSPC", "EACCES", "EMFILE", "EROFS"),
    "write": ("ENOSPC", "EIO", "EDQUOT"),
    "truncate": ("EIO",),
    "fsync": ("EIO", "ENOSPC"),
    "mkdir": ("ENOSPC", "EACCES"),
    "unlink": ("EACCES", "EPERM", "EBUSY", "EIO"),
    "rmdir": ("EACCES", "EPERM", "EBUSY", "EIO"),
    "rename": ("EACCES", "EIO", "ENOSPC"),
    "link": ("EACCES", "EPERM", "EXDEV", "ENOSPC"),
    "symlink": ("EACCES", "EPERM", "ENOSPC"),
    "replace": ("EACCES", "EIO", "ENOSPC"),
}


def scratch_root() -> str:
    for base in ("/dev/shm", tempfile.gettempdir()):
        if os.path.isdir(base) and os.access(base, os.W_OK):
            return base
    raise HarnessError("no writable scratch directory")


class _SimFileIO(io.FileIO):
    """raw file whose mutating calls are gated"""

    def __init__(self, sim, path, mode, fd=None, closefd=True):
        self._sim = None  # gate off while FileIO.__init__ runs
        self._discard = False
        if fd is None:
            super().__init__(path, mode)
        else:
            super().__init__(fd, mode, closefd=closefd)
        self._sim = sim
        self._simpath = path
        sim.open_files.append(self)

    def write(self, b):
        if self._discard:
            return len(b)  # abandoned after the run: never reaches the disk
        sim = self._sim
        if sim is None:
            return super().write(b)
        n = len(b)
        act = sim.gate("write", self._simpath, n)
        if act == "short" and n > 1:
            return super().write(bytes(b[: max(1, n // 2)]))
        return super().write(b)

    def truncate(self, size=None):
        sim = self._sim
        if sim is not None:
            sim.gate("truncate", self._simpath, 0 if size is None else size)
        return super().truncate(size)

    def close(self):
        # closing has no durable effect; always really release the fd
        if not self.closed:
            sim = self._sim
            if sim is not None and not sim.dead:
                sim.note("close", self._simpath)
        return super().close()


class _ScanDir:
    def __init__(self, entries):
        self._entries = entries
        self._it = iter(entries)

    def __iter__(self):
        return self

    def __next__(self):
        return next(self._it)

    def __enter__(self):
        return self

    def __exit__(self, *a):
        self.close()

    def close(self):
        self._it = iter(())


class SimOS:
    """one simulated run's view of the file system"""

    def __init__(self, root, *, faults=None, buffer_size=None, dir_order="sorted",
                 name_salt="n"):
        self.root = os.path.realpath(root)
        self.prefix = self.root + os.sep
        self.faults = dict(faults or {})  # call index -> dict(kind=..., errno=...)
        self.buffer_size = buffer_size
        self.dir_order = dir_order
        self.name_salt = name_salt
        self.ncalls = 0
        self.nnotes = 0
        self.events = []  # (call index or -1, kind, relpath, size, fault tag)
        self.fired = {}
        self.dead = False
        self.kill_snapshot = None
        self.kill_event = None
        self._name_counter = 0
        self._installed = False
        self.open_files = []
        self.fd_paths = {}  # descriptors from the gated os.open -> path
        self.enabled = True

    # -- naming -------------------------------------------------------------
    def rel(self, path) -> str:
        p = os.path.abspath(os.fspath(path))
        if p == self.root:
            return "."
        if p.startswith(self.prefix):
            return p[len(self.prefix):]
        return p

    def owns(self, path) -> bool:
        if not self.enabled:
            return False
        if isinstance(path, int):
            return False
        try:
            p = os.fspath(path)
        except TypeError:
            return False
        if isinstance(p, bytes):
            p = os.fsdecode(p)
        p = os.path.abspath(p)
        return p == self.root or p.startswith(self.prefix)

    def next_name(self, kind) -> str:
        self._name_counter += 1
        return f"{kind}{self.name_salt}{self._name_counter:04d}"

    # -- the gate -----------------------------------------------------------
    def gate(self, kind, path, size=0):
        if self.dead:
            raise SimKill()
        idx = self.ncalls
        self.ncalls += 1
        fault = self.faults.get(idx)
        if fault is not None and fault["kind"] == "oserror" and kind == "open" and size == "r+":
            # ZipFile(mode="a") probes with an "r+b" open and retries a failed
            # probe as a truncating "w+b" open: one injected failure followed
            # by a successful truncating open is not a sequence a real file
            # system produces, so this fault is not injected
            self.fired["skipped-r+-open"] = self.fired.get("skipped-r+-open", 0) + 1
            fault = None
        rel = path if kind == "sql" else self.rel(path)
        tag = None
        if fault is not None:
            tag = fault["kind"] if fault["kind"] != "oserror" else f"oserror:{fault['errno']}"
        self.events.append((idx, kind, rel, size, tag))
        if fault is None:
            return None
        fk = fault["kind"]
        self.fired[fk] = self.fired.get(fk, 0) + 1
        if fk == "kill":
            self.kill_snapshot = snapshot_tree(self.root)
            self.kill_event = (idx, kind, rel)
            self.dead = True
            raise SimKill()
        if fk == "oserror":
            code = getattr(_errno, fault["errno"])
            if kind == "sql":
                import sqlite3

                msg = "database or disk is full" if fault["errno"] == "ENOSPC" else "disk I/O error"
                raise sqlite3.OperationalError(msg)
            raise OSError(code, os.strerror(code), os.fspath(path))
        if fk == "short":
            return "short"
        raise HarnessError(f"unknown fault kind {fk!r}")

    def note(self, kind, path, size=0):
        """record an event that is not a fault point"""
        self.nnotes += 1
        self.events.append((-1, kind, self.rel(path), size, None))

    # -- patched entry points -------------------------------------------------
    def _open(self, file, mode="r", buffering=-1, encoding=None, errors=None,
              newline=None, closefd=True, opener=None):
        fd = file if isinstance(file, int) and file in self.fd_paths else None
        if fd is None and (
            not self.owns(file)
            or opener is not None
            or not any(c in mode for c in "wax+")
        ):
            return _real["io.open"](file, mode, buffering, encoding, errors, newline,
                                    closefd, opener)
        binary = "b" in mode
        rawmode = "".join(c for c in mode if c in "rwax+")
        if fd is not None:
            # a descriptor obtained from the gated os.open (mkstemp, ...): the file
            # exists already, only the writes through it are gated
            path = self.fd_paths[fd]
            if not any(c in mode for c in "wax+"):
                return _real["io.open"](file, mode, buffering, encoding, errors, newline, closefd, opener)
            raw = _SimFileIO(self, path, rawmode, fd=fd, closefd=closefd)
            if closefd:
                self.fd_paths.pop(fd, None)
        else:
            path = os.path.abspath(os.fspath(file))
            # opening for write creates/truncates: a durable effect, so gated
            self.gate("open", path, rawmode)
            raw = _SimFileIO(self, path, rawmode)
        try:
            if buffering == 0:
                if not binary:
                    raise ValueError("can't have unbuffered text I/O")
                return raw
            bufsize = buffering if buffering > 1 else (self.buffer_size or io.DEFAULT_BUFFER_SIZE)
            if "+" in rawmode:
                buf = io.BufferedRandom(raw, bufsize)
            elif "r" in rawmode:
                buf = io.BufferedReader(raw, bufsize)
            else:
                buf = io.BufferedWriter(raw, bufsize)
            if binary:
                return buf
            text = io.TextIOWrapper(buf, encoding, errors, newline, buffering == 1)
            text.mode = mode
            return text
        except BaseException:
            raw.close()
            raise

    def _mkdir(self, path, mode=0o777, *, dir_fd=None):
        if dir_fd is None and self.owns(path):
            self.gate("mkdir", path)
            return _real["os.mkdir"](path, mode)
        if dir_fd is None:
            return _real["os.mkdir"](path, mode)
        return _real["os.mkdir"](path, mode, dir_fd=dir_fd)

    def _rmdir(self, path, *, dir_fd=None):
        if dir_fd is None and self.owns(path):
            self.gate("rmdir", path)
            return _real["os.rmdir"](path)
        if dir_fd is None:
            return _real["os.rmdir"](path)
        return _real["os.rmdir"](path, dir_fd=dir_fd)

    def _unlink(self, path, *, dir_fd=None):
        if dir_fd is None and self.owns(path):
            self.gate("unlink", path)
            return _real["os.unlink"](path)
        if dir_fd is None:
            return _real["os.unlink"](path)
        return _real["os.unlink"](path, dir_fd=dir_fd)

    def _rename(self, src, dst, *, src_dir_fd=None, dst_dir_fd=None):
        if src_dir_fd is None and dst_dir_fd is None and (self.owns(src) or self.owns(dst)):
            self.gate("rename", dst, 0)
            self.events[-1] = self.events[-1][:2] + (f"{self.rel(src)}->{self.rel(dst)}",) + self.events[-1][3:]
            return _real["os.rename"](src, dst)
        return _real["os.rename"](src, dst, src_dir_fd=src_dir_fd, dst_dir_fd=dst_dir_fd)

    def _replace(self, src, dst, *, src_dir_fd=None, dst_dir_fd=None):
        if src_dir_fd is None and dst_dir_fd is None and (self.owns(src) or self.owns(dst)):
            self.gate("replace", dst, 0)
            self.events[-1] = self.events[-1][:2] + (f"{self.rel(src)}->{self.rel(dst)}",) + self.events[-1][3:]
            return _real["os.replace"](src, dst)
        return _real["os.replace"](src, dst, src_dir_fd=src_dir_fd, dst_dir_fd=dst_dir_fd)

    def _link(self, src, dst, *, src_dir_fd=None, dst_dir_fd=None, follow_symlinks=True):
        if src_dir_fd is None and dst_dir_fd is None and (self.owns(src) or self.owns(dst)):
            self.gate("link", dst, 0)
            self.events[-1] = self.events[-1][:2] + (f"{self.rel(src)}->{self.rel(dst)}",) + self.events[-1][3:]
            return _real["os.link"](src, dst, follow_symlinks=follow_symlinks)
        return _real["os.link"](src, dst, src_dir_fd=src_dir_fd, dst_dir_fd=dst_dir_fd,
                                follow_symlinks=follow_symlinks)

    def _symlink(self, src, dst, target_is_directory=False, *, dir_fd=None):
        if dir_fd is None and self.owns(dst):
            self.gate("symlink", dst, 0)
            return _real["os.symlink"](src, dst, target_is_directory)
        return _real["os.symlink"](src, dst, target_is_directory, dir_fd=dir_fd)

    def _truncate(self, path, length):
        if self.owns(path):
            self.gate("truncate", path, length)
        return _real["os.truncate"](path, length)

    def _os_open(self, path, flags, mode=0o777, *, dir_fd=None):
        # low-level opens that can create or truncate inside the sandbox
        # (tempfile.mkstemp, os.fdopen users): gated, and the descriptor is
        # remembered so that writes through it are gated too
        if dir_fd is None and self.owns(path) and flags & (
            os.O_WRONLY | os.O_RDWR | os.O_CREAT | os.O_TRUNC | os.O_APPEND
        ):
            self.gate("open", path, "fd")
            fd = _real["os.open"](path, flags, mode)
            self.fd_paths[fd] = os.path.abspath(os.fspath(path))
            return fd
        if dir_fd is None:
            return _real["os.open"](path, flags, mode)
        return _real["os.open"](path, flags, mode, dir_fd=dir_fd)

    def _os_write(self, fd, data):
        path = self.fd_paths.get(fd)
        if path is None:
            return _real["os.write"](fd, data)
        act = self.gate("write", path, len(data))
        if act == "short" and len(data) > 1:
            return _real["os.write"](fd, bytes(data[: max(1, len(data) // 2)]))
        return _real["os.write"](fd, data)

    def _os_fsync(self, fd):
        if hasattr(fd, "fileno"):
            fd = fd.fileno()
        path = self.fd_paths.get(fd)
        if path is None:
            for raw in self.open_files:
                if not raw.closed and raw.fileno() == fd:
                    path = raw._simpath
                    break
        if path is not None:
            self.gate("fsync", path, 0)
        return _real["os.fsync"](fd)

    def _os_close(self, fd):
        self.fd_paths.pop(fd, None)
        return _real["os.close"](fd)

    def _ordered(self, names, key):
        names = sorted(names)
        if self.dir_order == "sorted":
            return names
        if self.dir_order == "reverse":
            return names[::-1]
        # deterministic pseudo-shuffle keyed by the plan's salt and the names
        return sorted(
            names,
            key=lambda n: hashlib.sha256(f"{self.dir_order}|{key}|{n}".encode()).digest(),
        )

    def _scandir(self, path="."):
        if not self.owns(path):
            return _real["os.scandir"](path)
        with _real["os.scandir"](path) as it:
            entries = {e.name: e for e in it}
        order = self._ordered(list(entries), self.rel(path))
        return _ScanDir([entries[n] for n in order])

    def _listdir(self, path="."):
        if not self.owns(path):
            return _real["os.listdir"](path)
        return self._ordered(_real["os.listdir"](path), self.rel(path))

    def _uuid4(self):
        # deterministic, well-formed, unique within the run
        h = hashlib.md5(self.next_name("uuid").encode()).hexdigest()
        return uuid.UUID(hex=h, version=4)

    def _candidate_names(self):
        sim = self

        class _Names:
            def __iter__(self):
                return self

            def __next__(self):
                return sim.next_name("t")

        return _Names()

    # -- install / remove -----------------------------------------------------
    def install(self):
        global ACTIVE
        if self._installed or ACTIVE is not None:
            raise HarnessError("SimOS installed twice")
        ACTIVE = self
        builtins.open = self._open
        io.open = self._open
        bz2._builtin_open = self._open
        os.mkdir = self._mkdir
        os.rmdir = self._rmdir
        os.unlink = self._unlink
        os.remove = self._unlink
        os.rename = self._rename
        os.replace = self._replace
        os.scandir = self._scandir
        os.listdir = self._listdir
        os.truncate = self._truncate
        os.link = self._link
        os.symlink = self._symlink
        os.open = self._os_open
        os.write = self._os_write
        os.fsync = self._os_fsync
        os.close = self._os_close
        uuid.uuid4 = self._uuid4
        tempfile._get_candidate_names = self._candidate_names
        shutil._use_fd_functions = False
        shutil._USE_CP_SENDFILE = False  # copyfile must go through the write seam
        self._old_hook = sys.unraisablehook
        sys.unraisablehook = _quiet_unraisable(self._old_hook)
        self._extra_patches = []
        for modname, attr in (
            ("cogent3.app.composable", "uuid4"),
            ("cogent3.util.io", "remove"),
        ):
            mod = sys.modules.get(modname)
            if mod is not None and hasattr(mod, attr):
                self._extra_patches.append((mod, attr, getattr(mod, attr)))
                setattr(mod, attr, self._uuid4 if attr == "uuid4" else self._unlink)
        self._installed = True
        return self

    def uninstall(self):
        global ACTIVE
        if not self._installed:
            return
        ACTIVE = None
        builtins.open = _real["builtins.open"]
        io.open = _real["io.open"]
        bz2._builtin_open = _real["bz2._builtin_open"]
        os.mkdir = _real["os.mkdir"]
        os.rmdir = _real["os.rmdir"]
        os.unlink = _real["os.unlink"]
        os.remove = _real["os.remove"]
        os.rename = _real["os.rename"]
        os.replace = _real["os.replace"]
        os.scandir = _real["os.scandir"]
        os.listdir = _real["os.listdir"]
        os.truncate = _real["os.truncate"]
        os.link = _real["os.link"]
        os.symlink = _real["os.symlink"]
        os.open = _real["os.open"]
        os.write = _real["os.write"]
        os.fsync = _real["os.fsync"]
        os.close = _real["os.close"]
        uuid.uuid4 = _real["uuid.uuid4"]
        tempfile._get_candidate_names = _real["tempfile._get_candidate_names"]
        shutil._use_fd_functions = _real["shutil._use_fd_functions"]
        shutil._USE_CP_SENDFILE = _real["shutil._USE_CP_SENDFILE"]
        sys.unraisablehook = self._old_hook
        for mod, attr, old in self._extra_patches:
            setattr(mod, attr, old)
        self._installed = False

    def __enter__(self):
        return self.install()

    def __exit__(self, *exc):
        self.uninstall()
        return False

    def abandon(self):
        """end of a simulated process lifetime: whatever is still buffered in
        files this run opened is dropped (never written), logging handlers
        that point into the sandbox are closed, descriptors are released"""
        import logging

        for raw in self.open_files:
            raw._discard = True
        for ref in list(getattr(logging, "_handlerList", [])):
            hdl = ref() if callable(ref) else ref
            name = getattr(hdl, "baseFilename", None)
            if hdl is not None and name and self.owns(name):
                try:
                    lg_names = list(logging.Logger.manager.loggerDict)
                    for ln in lg_names:
                        lg = logging.Logger.manager.loggerDict.get(ln)
                        if isinstance(lg, logging.Logger) and hdl in lg.handlers:
                            lg.removeHandler(hdl)
                    hdl.close()
                except Exception:
                    pass
        for raw in self.open_files:
            try:
                if not raw.closed:
                    io.FileIO.close(raw)
            except Exception:
                pass
        self.open_files = []
        for fd in list(self.fd_paths):
            try:
                _real["os.close"](fd)
            except OSError:
                pass
        self.fd_paths = {}

    # -- after a kill -----------------------------------------------------------
    def check_no_leak(self):
        """after a kill has unwound: the disk must equal the snapshot"""
        if self.kill_snapshot is None:
            return
        now = snapshot_tree(self.root)
        if now != self.kill_snapshot:
            # SQLite's own files may change when the connection of the dead
            # process is closed (an open transaction is rolled back, the journal
            # removed): that is SQLite's crash recovery, which is trusted
            diff = sorted(
                k for k in set(now) | set(self.kill_snapshot)
                if now.get(k) != self.kill_snapshot.get(k)
                and not k.endswith((".sqlitedb", ".sqlitedb-journal", ".sqlitedb-wal", ".sqlitedb-shm"))
            )
            if not diff:
                return
            raise HarnessError(
                f"something wrote around the seams after kill at {self.kill_event}: {diff}"
            )

    # -- digest ---------------------------------------------------------------
    def event_lines(self, sizes=True):
        out = []
        for idx, kind, rel, size, tag in self.events:
            if not sizes or rel.endswith(".log") or "/logs/" in f"/{rel}":
                size = "-"
            out.append(f"{idx}|{kind}|{rel}|{size}|{tag or ''}")
        return out

    def digest(self):
        return hashlib.sha256("\n".join(self.event_lines()).encode()).hexdigest()

    def shape(self):
        """event kinds + fault positions, names and sizes abstracted"""
        return "".join(
            f"{kind[:2]}{'!' + tag if tag else ''};" for _, kind, _, _, tag in self.events
        )


def _quiet_unraisable(old):
    def hook(unraisable):
        if isinstance(unraisable.exc_value, SimKill):
            return
        old(unraisable)

    return hook


def snapshot_tree(root) -> dict:
    """path -> bytes for files, None for directories (read around the seams)"""
    out = {}
    root = os.fspath(root)
    stack = [root]
    n = len(root) + 1
    while stack:
        d = stack.pop()
        with _real["os.scandir"](d) as it:
            for e in it:
                p = e.path
                if e.is_dir(follow_symlinks=False):
                    out[p[n:]] = None
                    stack.append(p)
                else:
                    with _real["io.open"](p, "rb") as f:
                        out[p[n:]] = f.read()
    return out


def make_sandbox(tag="") -> str:
    base = scratch_root()
    path = os.path.join(base, f"verif-{_real_getpid()}-{tag}")
    if os.path.exists(path):
        shutil.rmtree(path)
    _real["os.mkdir"](path)
    return path


def remove_sandbox(path):
    if os.path.isdir(path):
        shutil.rmtree(path, ignore_errors=True)
