"""C16: nested-model initialisation and optimisation never lose likelihood.

The optimiser is a loop that can be cut at any evaluation (max_evaluations),
whose global stage draws from a seeded random stream, whose objective can
fail at any evaluation (a cancelled calculation -> -inf), and which can
checkpoint on a clock.  A scenario is a "hypothesis run": build null and
alternative (nested by rate-matrix structure or by parameter scope), fit the
null under cut-off n1 from plan-chosen start values, initialise the
alternative from it, fit the alternative under cut-off n2; optionally sweep
the cut-off n = 1..K, inject evaluation failures at plan-chosen evaluation
counts, and run the same pair through the `hypothesis` app.

Invariants:
 J1  immediately after initialise_from_nested: alt.lnL == null.lnL (rtol 1e-6)
 J2  every optimise call: lnL_after >= lnL_before - 1e-8*max(1,|lnL|)
 J3  every optimised parameter within its declared bounds
 J4  LR >= -2.1e-6*max(1,|lnL|)  (the slack J1 and J2 allow, no more)
 bounded liveness: an optimise call with max_evaluations=n performs at most
 n + 1 objective evaluations.
"""

from __future__ import annotations

import contextlib
import hashlib
import io
import math
import warnings

import numpy

from core import RunResult

TREES = (
    "(a:0.1,b:0.2,c:0.3);",
    "((a:0.1,b:0.2):0.05,c:0.3,d:0.15);",
    "((a:0.1,b:0.2)ab:0.05,(c:0.3,d:0.15)cd:0.07,e:0.2);",
)

# the same topologies described differently (child order, internal node names,
# position of the root): edge names then differ or refer to other edges, so
# initialise_from_nested must refuse the pair or still be exact
ALT_TREES = (
    ("(c:0.3,a:0.1,b:0.2);",),
    ("(c:0.3,d:0.15,(a:0.1,b:0.2):0.05);", "((b:0.2,a:0.1):0.05,c:0.3,d:0.15);", "((a:0.1,b:0.2)ab:0.05,c:0.3,d:0.15);",
     "(a:0.1,b:0.2,(c:0.3,d:0.15):0.05);"),
    ("((c:0.3,d:0.15)cd:0.07,(a:0.1,b:0.2)ab:0.05,e:0.2);", "((a:0.1,b:0.2):0.05,(c:0.3,d:0.15):0.07,e:0.2);",
     "(a:0.1,b:0.2,((c:0.3,d:0.15)cd:0.07,e:0.2)x:0.05);", "((a:0.1,b:0.2)cd:0.05,(c:0.3,d:0.15)ab:0.07,e:0.2);"),
)

# (null, alt, kind)
PAIRS = (
    ("F81", "HKY85", "matrix"),
    ("F81", "TN93", "matrix"),
    ("F81", "GTR", "matrix"),
    ("HKY85", "TN93", "matrix"),
    ("HKY85", "GTR", "matrix"),
    ("TN93", "GTR", "matrix"),
    ("F81", "GN", "matrix"),
    ("HKY85", "GN", "matrix"),
    ("TN93", "GN", "matrix"),
    ("GTR", "GN", "matrix"),
    ("JC69", "K80", "matrix"),
    ("K80", "HKY85", "mprobs"),
    ("JC69", "F81", "mprobs"),
    ("HKY85", "HKY85", "scope-indep"),
    ("HKY85", "HKY85", "scope-edges"),
    ("GTR", "GTR", "scope-edges"),
    ("TN93", "TN93", "scope-indep"),
    ("HKY85", "HKY85", "scope2-indep"),  # the null itself has a two-scope parameter
    ("GTR", "GTR", "scope2-indep"),
    ("HKY85", "HKY85", "scope2-edges"),
    ("F81", "HKY85", "matrix+scope"),  # richer matrix AND a per-edge parameter at once
    ("HKY85", "GTR", "matrix+scope"),
    ("HKY85", "TN93", "matrix+scope"),
    # equal-frequency and strand-symmetric nulls inside the non-stationary models
    ("K80", "ssGN", "matrix"),
    ("JC69", "ssGN", "matrix"),
    ("K80", "GN", "matrix"),
    ("JC69", "GN", "matrix"),
    ("ssGN", "GN", "matrix"),
    # richer matrix and free motif probabilities at once
    ("JC69", "HKY85", "mprobs"),
    ("K80", "TN93", "mprobs"),
    ("K80", "GTR", "mprobs"),
    # user-defined nested models: one parameter for all transversions (it covers the
    # reference cell of every named richer model) / for all transitions (control)
    ("TVbeta", "GTR", "matrix"),
    ("TVbeta", "GN", "matrix"),
    ("TSalpha", "GTR", "matrix"),
    ("TSalpha", "GN", "matrix"),
)


# codon models (61 states, slower): predicates that overlap (the CpG terms of the
# H04 family lie inside kappa), conditional / monomer / tuple motif probabilities
CODON_PAIRS = (
    ("MG94HKY", "MG94GTR", "matrix"),
    ("CNFHKY", "CNFGTR", "matrix"),
    ("Y98", "H04G", "matrix"),
    ("Y98", "H04GK", "matrix"),
    ("Y98", "H04GGK", "matrix"),
    ("H04G", "H04GGK", "matrix"),
    ("H04GK", "H04GGK", "matrix"),
    ("MG94HKY", "MG94HKY", "scope-edges"),
    ("Y98", "Y98", "scope-indep"),
    ("H04GK", "H04GK", "scope-edges"),
    ("CNFGTR", "CNFGTR", "scope-edges"),
)
CODON_MODELS = frozenset(m for p in CODON_PAIRS for m in p[:2])


def gen(rng, tier, index):
    pair = PAIRS[index % len(PAIRS)] if index < 3 * len(PAIRS) else rng.choice(PAIRS)
    if rng.random() < (0.04 if tier == "quick" else 0.06):
        pair = rng.choice(CODON_PAIRS)
    plan = {
        "engine": "c16",
        "null": pair[0], "alt": pair[1], "kind": pair[2],
        "tree": rng.randint(0, len(TREES) - 1),
        "aln_seed": rng.randint(0, 9),
        "len": rng.choice([40, 90, 200]),
        "div": rng.choice([0.1, 0.25, 0.5]),
        "base_freqs": [round(rng.uniform(0.1, 1.0), 3) for _ in range(4)],
        "start": [round(rng.random(), 4) for _ in range(8)],
        "n1": rng.choice([1, 2, 3, 5, 8, 13, 21, 34, 55, 89, 144, 400]),
        "n2": rng.choice([1, 2, 3, 5, 8, 13, 21, 34, 55, 89, 144]),
        "local1": rng.choice([True, True, None, False]),
        "local2": rng.choice([True, True, None, False]),
        "seed": rng.randint(0, 999),
        "tolerance": rng.choice([1e-6, 1e-6, 1e-3, 1e-8]),
        "max_restarts": rng.choice([None, None, 1, 5]),
        "fail_rate": rng.choice([0, 0, 0.03, 0.1, 0.3]),
        "fail_salt": rng.randint(1, 999),
        "fail_exc": rng.choice(["arith", "bounds"]),
        "sweep": rng.random() < (0.15 if tier == "quick" else 0.3),
        "sweep_k": 24 if tier == "quick" else 60,
        "via_app": rng.random() < 0.15,
        "scope_edges": [rng.randint(0, 7) for _ in range(rng.randint(1, 2))],
        "bounds": rng.random() < 0.25,
        "checkpoint": rng.random() < 0.12,
        "limit_action": rng.choice(["ignore", "ignore", "ignore", "raise", "warn"]),
        "mprobs_mode": rng.choice(["empirical", "empirical", "optimised", "user"]),
        "upper": rng.choice([3.0, 10.0, 6.0, 2.0, 1.5]),
        "ts_bias": rng.choice([0.6, 0.6, 0.9]),
        "user_mprobs": [round(rng.uniform(0.1, 1.0), 3) for _ in range(4)],
        "chain": rng.random() < 0.5,
        # the nested model holds one of its rate parameters constant (everywhere, or
        # on an edge set): 0 = no, 1 = everywhere, 2 = on the selected edges
        "null_const": rng.choice([0, 0, 0, 0, 0, 0, 1, 1, 2, 1]),
        # the richer function is not at its default values when it is initialised
        "alt_preset": rng.random() < 0.25,
        # the richer function is built on another description of the same topology
        "alt_tree": rng.choice([0] * 9 + [1, 2, 3, 4]),
        "split_codons": rng.random() < 0.3,
    }
    return plan


# ---------------------------------------------------------------------------

_SM = {}


def sm_of(name):
    from cogent3 import get_model

    if name in ("TVbeta", "TSalpha") and name not in _SM:
        from cogent3.evolve.predicate import MotifChange
        from cogent3.evolve.substitution_model import TimeReversibleNucleotide

        pairs = ("AC", "AT", "CG", "GT") if name == "TVbeta" else ("AG", "CT")
        pred = MotifChange(*pairs[0])
        for a, b in pairs[1:]:
            pred = pred | MotifChange(a, b)
        _SM[name] = TimeReversibleNucleotide(predicates={name[2:]: pred}, name=name)
    if name not in _SM:
        kw = {}
        _SM[name] = get_model(name, **kw)
    return _SM[name]


def make_data(plan):
    import random

    from cogent3 import make_aligned_seqs, make_tree

    tree = make_tree(TREES[plan["tree"]])
    names = tree.get_tip_names()
    r = random.Random(f"{plan['aln_seed']}|{plan['len']}|{plan['div']}|{plan.get('ts_bias', 0.6)}")
    tot = sum(plan["base_freqs"])
    weights = [v / tot for v in plan["base_freqs"]]
    codon = plan["null"] in CODON_MODELS
    n = plan["len"] if not codon else 3 * max(10, plan["len"] // 5)
    base = r.choices("ACGT", weights=weights, k=n)
    seqs = {}
    for nm in names:
        s = list(base)
        for i in range(n):
            if r.random() < plan["div"]:
                # transitions more likely than transversions
                b = s[i]
                ts = {"A": "G", "G": "A", "C": "T", "T": "C"}[b]
                s[i] = ts if r.random() < plan.get("ts_bias", 0.6) else r.choices("ACGT", weights=weights)[0]
        txt = "".join(s)
        if codon:
            txt = "".join("GCT" if txt[k:k + 3] in ("TAA", "TAG", "TGA") else txt[k:k + 3]
                          for k in range(0, len(txt), 3))
        seqs[nm] = txt
    return make_aligned_seqs(seqs, moltype="dna"), tree


def build(plan, which, aln, tree):
    name = plan[which]
    sm = sm_of(name)
    kw = {}
    if plan["kind"] == "mprobs" and which == "alt":
        kw["optimise_motif_probs"] = True
    mode = plan.get("mprobs_mode", "empirical")
    equal_freq_null = plan["null"] in ("JC69", "K80") or name in CODON_MODELS
    if mode == "optimised" and not equal_freq_null:
        # motif probabilities are free parameters of both models
        kw["optimise_motif_probs"] = True
    lf = sm.make_likelihood_function(tree, **kw)
    lf.set_alignment(aln)
    if mode == "user" and not equal_freq_null and which == "null":
        tot = sum(plan["user_mprobs"])
        lf.set_motif_probs({b: v / tot for b, v in zip("TCAG", plan["user_mprobs"])})
    edges = [e.name for e in tree.get_edge_vector(include_root=False)]
    if which == "null" and plan.get("null_const") and plan["kind"] in ("matrix", "mprobs", "matrix+scope"):
        pars = [p for p in lf.get_param_names() if p not in ("mprobs", "length")]
        if pars:
            par = pars[int(plan["start"][2] * len(pars)) % len(pars)]
            v = round(0.3 + plan["start"][3] * 3.0, 4)
            if plan["null_const"] == 2:
                sel = sorted({edges[e % len(edges)] for e in plan["scope_edges"]})
                lf.set_param_rule(par, edges=sel, is_constant=True, value=v)
            else:
                lf.set_param_rule(par, is_constant=True, value=v)
    if plan["kind"] == "matrix+scope":
        if which == "alt":
            pars = [p for p in lf.get_param_names() if p not in ("mprobs", "length")]
            if plan["start"][1] > 0.5:
                lf.set_time_heterogeneity(is_independent=True)
            else:
                lf.set_param_rule(pars[int(plan["start"][0] * len(pars)) % len(pars)], is_independent=True)
        return lf
    if plan["kind"].startswith("scope2"):
        pars = [p for p in lf.get_param_names() if p not in ("mprobs", "length")]
        par = pars[plan["start"][0] > 0.5 and len(pars) > 1]
        sel = sorted({edges[e % len(edges)] for e in plan["scope_edges"]} | {edges[0]})
        if len(sel) >= len(edges):
            sel = sel[:-1]
        if which == "null":
            # one value for the selected edges, another for the rest
            lf.set_param_rule(par, edges=sel, is_independent=False)
        elif plan["kind"] == "scope2-indep":
            lf.set_param_rule(par, is_independent=True)
        else:
            # refine both null scopes: every selected edge on its own, and the rest split in two
            lf.set_param_rule(par, edges=sel, is_independent=True)
            rest = [e for e in edges if e not in sel]
            if len(rest) > 1:
                lf.set_param_rule(par, edges=rest[: len(rest) // 2], is_independent=False)
        return lf
    if which == "alt" and plan["kind"].startswith("scope"):
        pars = [p for p in lf.get_param_names() if p not in ("mprobs", "length")]
        par = pars[plan["start"][0] > 0.5 and len(pars) > 1]
        if plan["kind"] == "scope-indep":
            lf.set_param_rule(par, is_independent=True)
        else:
            sel = sorted({edges[e % len(edges)] for e in plan["scope_edges"]})
            lf.set_param_rule(par, edges=sel, is_independent=len(sel) > 1 and plan["start"][1] > 0.5)
    return lf


def set_start(plan, lf, with_bounds=True, offset=0):
    kw = {"lower": 0.05, "upper": plan.get("upper", 6.0)} if plan["bounds"] and with_bounds else {}
    k = offset
    for rule in lf.get_param_rules():
        p = rule["par_name"]
        if p in ("mprobs", "length", "bprobs", "rate") or rule.get("is_constant"):
            continue
        v = round(0.2 + plan["start"][k % 8] * 4.0, 4)
        if kw:
            # a start on (or clipped onto) the declared bound is a legal start
            v = min(v, kw["upper"]) if plan["start"][(k + 5) % 8] < 0.6 else kw["upper"]
        k += 1
        if "edges" in rule:
            # a scoped parameter keeps its scopes (a rule without edges would make it global again)
            lf.set_param_rule(p, edges=rule["edges"], is_independent=False, init=v, **kw)
        elif "edge" in rule:
            lf.set_param_rule(p, edge=rule["edge"], init=v, **kw)
        else:
            lf.set_param_rule(p, init=v, **kw)


@contextlib.contextmanager
def failing_evaluations(rate, salt, exc_kind, counter):
    """a calculator update is cancelled, the way real numerics cancel it
    (plain_update raises CalculationInterupted), whenever the parameter vector
    falls in a plan-chosen pseudo-random region: a deterministic function of
    the point, so a point that evaluated once evaluates again"""
    from cogent3.maths.optimisers import ParameterOutOfBoundsError
    from cogent3.recalculation import calculation

    orig = calculation.Calculator.plain_update

    def plain_update(self, program, data):
        counter[0] += 1
        if rate:
            n = len(self.opt_pars)
            u = (sum((i + 1.0) * float(data[i]) for i in range(n)) * (7919.0 + salt)) % 1.0
            if u < rate:
                counter[1] += 1
                exc = ArithmeticError("injected") if exc_kind == "arith" else ParameterOutOfBoundsError("injected")
                raise calculation.CalculationInterupted(program[0] if program else self._cells[-1], exc)
        return orig(self, program, data)

    calculation.Calculator.plain_update = plain_update
    try:
        yield
    finally:
        calculation.Calculator.plain_update = orig


def opt_kwargs(plan, n, local):
    kw = {"max_evaluations": n, "local": local, "limit_action": plan.get("limit_action", "ignore"),
          "show_progress": False, "tolerance": plan["tolerance"]}
    if plan["max_restarts"] is not None:
        kw["max_restarts"] = plan["max_restarts"]
    if local is not True:
        kw["seed"] = plan["seed"]
    return kw


def check_bounds(lf, res, cls_tail, detail, replay):
    for rule in lf.get_param_rules():
        if rule.get("is_constant") or rule["par_name"] == "mprobs":
            continue
        val = rule.get("init")
        lo, hi = rule.get("lower"), rule.get("upper")
        if not isinstance(val, (int, float, numpy.floating)):
            continue
        if lo is not None and val < lo and not numpy.isclose(val, lo):
            res.add(f"C16.out-of-bounds/{rule['par_name'] if rule['par_name'] == 'length' else 'rate'}:{cls_tail}",
                    f"{rule} below its lower bound; {detail}", replay)
            return False
        if hi is not None and val > hi and not numpy.isclose(val, hi):
            res.add(f"C16.out-of-bounds/{rule['par_name'] if rule['par_name'] == 'length' else 'rate'}:{cls_tail}",
                    f"{rule} above its upper bound; {detail}", replay)
            return False
    return True


def _point(lf):
    """every scalar parameter value of the function, keyed by name and scope"""
    out = {}
    for r in lf.get_param_rules():
        v = r.get("init", r.get("value"))
        if isinstance(v, (int, float, numpy.floating)):
            out[(r["par_name"], str(r.get("edge")), str(r.get("edges")))] = float(v)
        elif isinstance(v, dict):
            for k2, v2 in v.items():
                if isinstance(v2, (int, float, numpy.floating)):
                    out[(r["par_name"], str(r.get("edge")), str(r.get("edges")), str(k2))] = float(v2)
    return out


def optimise_checked(plan, lf, n, local, res, label, replay, counter, inject=True):
    """J2 + J3 + bounded liveness around one optimise call"""
    before = lf.lnL
    point_before = _point(lf)
    kw = opt_kwargs(plan, n, local)
    stage = "local" if local else ("global" if local is False else "global+local")
    faulty = "fault-free"
    ev0 = counter[0]
    fired0 = counter[1]
    evals_before = None
    try:
        rate = plan["fail_rate"] if inject else 0
        with failing_evaluations(rate, plan["fail_salt"], plan["fail_exc"], counter):
            calc = lf.optimise(return_calculator=True, **kw)
    except ArithmeticError as e:
        # limit_action="raise": the documented way of reporting the cut-off; the
        # function must nevertheless hold the best point seen (update in finally)
        if "FORCED EXIT" not in str(e):
            res.add(f"C16.optimise-raised/{stage}:ArithmeticError", f"{label}: optimise({kw}) raised {e!r}", replay)
            return False
        res.probe("limit_action-raise")
    except ValueError as e:
        if "Initial parameter values must" in str(e) and rate:
            res.probe("start-point-in-failure-region")
            return None
        res.add(f"C16.optimise-raised/{stage}:ValueError", f"{label}: optimise({kw}) raised {e!r}", replay)
        return False
    except Exception as e:  # noqa: BLE001
        res.add(f"C16.optimise-raised/{stage}:{type(e).__name__}",
                f"{label}: optimise({kw}) raised {e!r} (fail_rate={plan['fail_rate']})", replay)
        return False
    if counter[1] > fired0:
        faulty = "eval-failures"
        res.fault("eval_error", counter[1] - fired0)
    after = lf.lnL
    res.fault(f"cancel@n:{stage}")
    slack = 1e-8 * max(1.0, abs(before))
    detail = (f"{label}: {plan['null']}->{plan['alt']} ({plan['kind']}) optimise({kw}) before={before!r} "
              f"after={after!r} fail_rate={plan['fail_rate'] if inject else 0} evals_cancelled={counter[1] - fired0}")
    if not (after >= before - slack):
        point_after = _point(lf)
        same_point = point_before.keys() == point_after.keys() and all(
            abs(point_after[k] - v) <= 1e-12 * max(1.0, abs(v)) for k, v in point_before.items())
        if same_point and before - after <= 1e-6 * max(1.0, abs(before)):
            # the optimiser handed back its start point (to the last bit or two of the
            # log/exp round trip of the optimiser's parameter transform); the two values
            # differ because the function itself does not evaluate reproducibly to 1e-8
            # at neighbouring points (codon models: eigen / Pade exponentiation), which
            # is not a loss by the optimiser
            res.probe("start-point-returned:evaluation-noise")
            return True
        res.add(f"C16.lost-likelihood/{stage}:{faulty}", detail, replay)
        return False
    if not check_bounds(lf, res, stage, detail, replay):
        return False
    return True


def run(plan, tier="quick") -> RunResult:
    res = RunResult()
    res.config = "eval-failures" if plan["fail_rate"] else "fault-free"
    replay = plan
    # (the minimiser shortens lists: missing start values read as 0.5)
    plan = {**plan, "start": (list(plan["start"]) + [0.5] * 8)[:8]}
    counter = [0, 0]
    h = hashlib.sha256()
    out = io.StringIO()
    with warnings.catch_warnings(), contextlib.redirect_stdout(out):
        warnings.simplefilter("ignore")
        aln, tree = make_data(plan)
        pair = f"{plan['null']}->{plan['alt']}:{plan['kind']}"
        try:
            null = build(plan, "null", aln, tree)
            set_start(plan, null)
            alt_tree = tree
            variants = ALT_TREES[plan["tree"]]
            if plan.get("alt_tree"):
                from cogent3 import make_tree

                alt_tree = make_tree(variants[(plan["alt_tree"] - 1) % len(variants)])
            alt = build(plan, "alt", aln, alt_tree)
            if plan.get("alt_preset"):
                set_start(plan, alt, with_bounds=False, offset=2)
                res.probe("alt-not-at-defaults")
        except Exception as e:  # noqa: BLE001
            res.probe(f"setup-refused:{type(e).__name__}")
            return _finish(res, h, plan)
        if plan["null"] in CODON_MODELS:
            res.probe("codon-pair")
        if any(r.get("is_constant") and r["par_name"] not in ("length", "mprobs") for r in null.get_param_rules()):
            res.probe("null-holds-constant-rate:" + ("edge-set" if plan.get("null_const") == 2 else "everywhere"))
        if not math.isfinite(null.lnL):
            res.probe("non-finite-start")
            return _finish(res, h, plan)
        ok = optimise_checked(plan, null, plan["n1"], plan["local1"], res, "null fit", replay, counter)
        if ok is False:
            return _finish(res, h, plan)
        h.update(repr(round(null.lnL, 6)).encode())
        if not (alt.get_num_free_params() > null.get_num_free_params()):
            res.probe("not-genuinely-nested")
            return _finish(res, h, plan)
        null_lnL = null.lnL
        try:
            alt.initialise_from_nested(null)
        except AssertionError as e:
            if alt_tree is not tree and "Topology" in str(e):
                # another description of the tree: refusing the pair is legitimate
                res.probe("different-tree-description-refused")
                return _finish(res, h, plan)
            res.add(f"C16.nested-init-raised/{pair}:AssertionError",
                    f"initialise_from_nested raised {e!r}; null rules={null.get_param_rules()}", replay)
            return _finish(res, h, plan)
        except Exception as e:  # noqa: BLE001
            res.add(f"C16.nested-init-raised/{pair}:{type(e).__name__}",
                    f"initialise_from_nested raised {e!r}; null rules={null.get_param_rules()}", replay)
            return _finish(res, h, plan)
        res.executions += 1
        # J1
        a = alt.lnL
        if not numpy.isclose(a, null_lnL, rtol=1e-6, atol=1e-6):
            cls = f"C16.nested-init/{pair}" + (":other-tree-description" if alt_tree is not tree else "")
            try:
                clipped = [r["par_name"] for r in alt.get_param_rules()
                           if r["par_name"] not in ("length", "mprobs") and not r.get("is_constant")
                           and isinstance(r.get("init"), (int, float, numpy.floating))
                           and (r.get("upper") is not None and r["init"] >= r["upper"]
                                or r.get("lower") is not None and r["init"] <= r["lower"])]
                near = [r for r in null.get_param_rules()
                        if r["par_name"] not in ("length", "mprobs") and not r.get("is_constant")
                        and isinstance(r.get("init"), (int, float, numpy.floating)) and r.get("upper")
                        and r["init"] > r["upper"] / 100]
                ref = alt.model.get_param_matrix_coords(include_ref_cell=True)["ref_cell"]
                if any(ref <= cells for cells in null.model.get_param_matrix_coords().values()):
                    # a nested parameter covers the richer model's reference cell: every
                    # projected value would have to be rescaled by it (known finding C16-K2)
                    cls = "C16.nested-init/null-parameter-covers-reference-cell"
                if clipped and near:
                    # the fitted null sits within a factor 100 of a declared bound and the
                    # projected values were clipped onto the richer model's bounds: the
                    # declared-bounds-vs-exact-projection conflict of known finding C16-K1
                    cls = "C16.nested-init/bounds-clip"
            except Exception:  # noqa: BLE001
                pass
            res.add(cls,
                    f"after initialise_from_nested alt.lnL={a!r} but null.lnL={null_lnL!r} (diff {a - null_lnL:.3e}); "
                    f"null fitted with n={plan['n1']} local={plan['local1']}; mprobs={null.get_motif_probs()}", replay)
            return _finish(res, h, plan)
        res.probe(f"nested-init-exact:{plan['kind']}")
        if alt_tree is not tree:
            # accepted and exact (the description names the same edges the same way)
            res.probe("different-tree-description-accepted-exact")
            return _finish(res, h, plan)
        saved_rules = alt.get_param_rules()
        ok = optimise_checked(plan, alt, plan["n2"], plan["local2"], res, "alt fit", replay, counter)
        if ok is False:
            return _finish(res, h, plan)
        h.update(repr(round(alt.lnL, 6)).encode())
        LR = 2 * (alt.lnL - null_lnL)
        # consistent with J1 (rtol 1e-6 on lnL) and J2 (1e-8 relative)
        lr_tol = 2.1 * 1e-6 * max(1.0, abs(null_lnL))
        if LR < -lr_tol:
            res.add(f"C16.negative-LR/{pair}", f"LR={LR!r} null={null_lnL!r} alt={alt.lnL!r}", replay)
            return _finish(res, h, plan)
        # cut-off sweep: the same start, every evaluation limit 1..K
        if plan["sweep"]:
            res.probe("cut-off-sweep")
            for n in range(1, plan["sweep_k"] + 1):
                lf = build(plan, "alt", aln, tree)
                lf.apply_param_rules(saved_rules)
                res.executions += 1
                if optimise_checked(plan, lf, n, plan["local2"], res, f"sweep n={n}", replay, counter,
                                    inject=(n % 3 == 0)) is False:
                    return _finish(res, h, plan)
        # checkpointing on a simulated clock, then a *stale* checkpoint: a
        # file left by an earlier, differently-started fit of the same function
        if plan["checkpoint"]:
            if _checkpoint_scenario(plan, aln, tree, saved_rules, res, replay, counter) is False:
                return _finish(res, h, plan)
        # codon models: the natural-selection apps build a scoped null/alternative
        # pair themselves (omega constant vs free; omega per edge set) and run it
        # through `hypothesis` with the plan's evaluation limit
        if plan["via_app"] and plan["null"] in CODON_MODELS and plan["kind"].startswith("scope"):
            from cogent3 import get_app

            which = ("natsel_neutral", "natsel_timehet", "natsel_sitehet", "natsel_zhang")[int(plan["start"][4] * 4) % 4]
            res.probe(f"codon-app:{which}")
            oa = {"max_evaluations": plan["n2"], "limit_action": "ignore"}
            kw = {}
            if which in ("natsel_timehet", "natsel_zhang"):
                tips = tree.get_tip_names()
                kw = {"tip1": tips[0], "tip2": tips[1]} if plan["start"][5] < 0.5 else {"tip1": tips[0]}
            try:
                result = get_app(which, plan["null"], tree=tree, opt_args=oa, **kw)(aln)
                if not result:
                    res.probe("hypothesis-not-completed")
                else:
                    res.executions += 1
                    if result.LR < -2.1e-6 * max(1.0, abs(result.null.lnL)):
                        res.add(f"C16.negative-LR/{which}:{plan['null']}",
                                f"{which}({plan['null']!r}, opt_args={oa}, {kw}) LR={result.LR!r} "
                                f"(null {result.null.lnL!r}, alt {result.alt.lnL!r})", replay)
            except Exception as e:  # noqa: BLE001
                res.add(f"C16.app-raised/{which}:{type(e).__name__}", f"{which} raised {e!r}", replay)
            return _finish(res, h, plan)
        # the same pair through the hypothesis app
        if plan["via_app"] and plan["kind"] in ("matrix", "matrix+scope", "scope-indep", "scope-edges"):
            from cogent3 import get_app

            res.probe("hypothesis-app")
            oa = {"max_evaluations": plan["n2"], "limit_action": "ignore"}
            ob = {"max_evaluations": max(plan["n1"], 30), "limit_action": "ignore"}
            try:
                split = {"split_codons": True} if plan.get("split_codons") and plan["kind"] == "matrix" else {}
                if split:
                    res.probe("hypothesis-app-split-codons")
                m0 = get_app("model", sm_of(plan["null"]) if plan["null"] in ("TVbeta", "TSalpha") else plan["null"],
                             tree=tree, opt_args=ob, show_progress=False, **split)
                m1kw = {"time_het": "max"} if plan["kind"] in ("matrix+scope", "scope-indep") else {}
                m1kw.update(split)
                if plan["kind"] == "scope-edges":
                    edges = [e.name for e in tree.get_edge_vector(include_root=False)]
                    sel = sorted({edges[e % len(edges)] for e in plan["scope_edges"]})
                    m1kw = {"time_het": [dict(edges=sel, is_independent=len(sel) > 1 and plan["start"][1] > 0.5)]}
                m1 = get_app("model", plan["alt"], name=f"{plan['alt']}-alt", tree=tree, opt_args=oa,
                             show_progress=False, **m1kw)
                chain = [plan["null"], f"{plan['alt']}-alt"]
                extra = {"HKY85": ["GTR", "GN"], "TN93": ["GTR"], "GTR": ["GN"], "K80": []}.get(plan["alt"], [])
                alts = [m1]
                if plan.get("chain") and extra and plan["kind"] == "matrix":
                    # a sequential hypothesis with several alternatives: each is
                    # initialised from the preceding fitted model
                    res.probe("hypothesis-app-chain")
                    for nm in extra:
                        chain.append(nm)
                        alts.append(get_app("model", nm, tree=tree, opt_args=oa, show_progress=False, **split))
                hyp = get_app("hypothesis", m0, *alts)
                result = hyp(aln)
                if result and len(chain) > 2:
                    for a, b in zip(chain, chain[1:]):
                        la, lb = result[a].lnL, result[b].lnL
                        if lb < la - 2.1e-6 * max(1.0, abs(la)):
                            cause = f"app-chain:{a}->{b}"
                            if a == plan["null"] and _null_covers_ref_cell(plan):
                                cause = "app:null-parameter-covers-reference-cell"  # known finding C16-K2
                            try:
                                if _projection_leaves_app_bounds(
                                        lambda: sm_of(b.replace("-alt", "")).make_likelihood_function(tree),
                                        result[a].lf, aln):
                                    cause = "app:bounds-clip"  # known finding C16-K1, here inside a chain
                            except Exception:  # noqa: BLE001
                                pass
                            res.add(f"C16.negative-LR/{cause}",
                                    f"sequential hypothesis {chain}: lnL({b})={lb!r} < lnL({a})={la!r}; "
                                    f"null opt_args={ob} alt opt_args={oa}", replay)
                            break
                if not result:
                    res.probe("hypothesis-not-completed")
                else:
                    res.executions += 1
                    if result.LR < -2.1 * 1e-6 * max(1.0, abs(result.null.lnL)):
                        # the model app imposes bounds (default 1e-6..50) on every rate
                        # parameter: was a projected value outside them?
                        cause = pair
                        try:
                            if _null_covers_ref_cell(plan):
                                cause = "null-parameter-covers-reference-cell"  # known finding C16-K2
                            elif _projection_leaves_app_bounds(
                                    lambda: sm_of(plan["alt"]).make_likelihood_function(tree)
                                    if split else build(plan, "alt", aln, tree), result.null.lf, aln):
                                cause = "bounds-clip"
                        except Exception:
                            pass
                        res.add(f"C16.negative-LR/app:{cause}",
                                f"hypothesis app LR={result.LR!r} (null {result.null.lnL!r}, alt {result.alt.lnL!r}) "
                                f"null opt_args={ob} alt opt_args={oa}", replay)
            except Exception as e:  # noqa: BLE001
                res.add(f"C16.app-raised/{pair}:{type(e).__name__}", f"hypothesis app raised {e!r}", replay)
    return _finish(res, h, plan)


def _null_covers_ref_cell(plan):
    """a parameter of the nested model covers the richer model's reference cell (C16-K2)"""
    ref = sm_of(plan["alt"]).get_param_matrix_coords(include_ref_cell=True)["ref_cell"]
    return any(ref <= cells for cells in sm_of(plan["null"]).get_param_matrix_coords().values())


def _projection_leaves_app_bounds(make_alt, nested, aln):
    """does projecting the fitted nested function(s) into a fresh richer function give a
    rate outside the model app's default bounds (1e-6 .. 50)?  `nested` is a likelihood
    function, or {codon position: function} for a split-codon fit"""
    fits = nested if isinstance(nested, dict) else {None: nested}
    for pos, lf in fits.items():
        probe = make_alt()
        probe.set_alignment(aln if pos is None else aln[int(pos) - 1::3])
        probe.initialise_from_nested(lf)
        vals = [r.get("init") for r in probe.get_param_rules()
                if r["par_name"] not in ("length", "mprobs") and not r.get("is_constant")]
        if any(isinstance(v, (int, float, numpy.floating)) and (v > 50 or v < 1e-6) for v in vals):
            return True
    return False


def _checkpoint_scenario(plan, aln, tree, saved_rules, res, replay, counter):
    import os
    import shutil
    import tempfile

    from cogent3.util import checkpointing

    import simsql

    base = "/dev/shm" if os.path.isdir("/dev/shm") else tempfile.gettempdir()
    scratch = tempfile.mkdtemp(prefix="verif-c16-", dir=base)
    ck = os.path.join(scratch, "anneal.chk")
    clock = simsql.SimClock(steps=[0.0, 5.0, 0.0, 700.0, 1.0])  # ties and jumps
    real_time = checkpointing.time

    class _T:
        time = staticmethod(clock.time)

    checkpointing.time = _T
    try:
        first = build(plan, "alt", aln, tree)
        first.apply_param_rules(saved_rules)
        kw = opt_kwargs(plan, max(plan["n2"], 40), False)
        kw["limit_action"] = "ignore"
        try:
            with failing_evaluations(0, 1, "arith", counter):
                first.optimise(filename=ck, interval=3, **kw)
        except Exception as e:  # noqa: BLE001
            res.add(f"C16.optimise-raised/checkpointing:{type(e).__name__}", f"optimise with filename raised {e!r}", replay)
            return False
        if not os.path.exists(ck):
            res.probe("no-checkpoint-written")
            return None
        res.fault("checkpoint_written")
        # a second, differently started fit finds the stale file
        second = build(plan, "alt", aln, tree)
        second.apply_param_rules(saved_rules)
        pars = [p for p in second.get_param_names() if p not in ("mprobs", "length", "bprobs", "rate")]
        for k, p in enumerate(pars[:2]):
            try:
                second.set_param_rule(p, init=round(0.3 + plan["start"][(k + 3) % 8] * 2.0, 4))
            except Exception:  # noqa: BLE001
                pass
        before = second.lnL
        kw2 = opt_kwargs(plan, plan["n2"], None if plan["local2"] is True else plan["local2"])
        kw2["limit_action"] = "ignore"
        try:
            with failing_evaluations(0, 1, "arith", counter):
                second.optimise(filename=ck, interval=3, **kw2)
        except Exception as e:  # noqa: BLE001
            # refusing a checkpoint that does not match is legitimate
            res.probe(f"stale-checkpoint-refused:{type(e).__name__}")
            return None
        res.fault("stale_checkpoint")
        res.executions += 2
        after = second.lnL
        if not (after >= before - 1e-8 * max(1.0, abs(before))):
            res.add("C16.lost-likelihood/stale-checkpoint",
                    f"optimise resumed from a stale checkpoint: before={before!r} after={after!r} kw={kw2}", replay)
            return False
        return check_bounds(second, res, "stale-checkpoint", "after resuming from a stale checkpoint", replay)
    finally:
        checkpointing.time = real_time
        shutil.rmtree(scratch, ignore_errors=True)


def _finish(res, h, plan):
    res.executions = max(res.executions, 1)
    res.events = 0
    h.update(repr(sorted(v.cls for v in res.violations)).encode())
    res.digest = h.hexdigest()
    shape = (f"{plan['null']}|{plan['alt']}|{plan['kind']}|{plan['n1']}|{plan['n2']}|{plan['local1']}|{plan['local2']}|"
             f"{plan['fail_rate']}|{plan['sweep']}|{plan['tree']}|{plan.get('mprobs_mode')}")
    res.shapes.append(hashlib.sha256(shape.encode()).hexdigest()[:16])
    res.sample = describe(plan)
    return res


def describe(plan):
    return {k: plan[k] for k in ("null", "alt", "kind", "tree", "len", "div", "start", "n1", "n2", "local1", "local2",
                                 "seed", "tolerance", "max_restarts", "fail_rate", "fail_salt", "fail_exc", "sweep", "via_app", "limit_action",
                                 "bounds")}


MINIMISE_KW = {"protect": ("engine", "null", "alt", "kind", "fail_exc", "local1", "local2", "tree", "len",
                           "limit_action", "mprobs_mode", "alt_tree"),
               "list_keys": ("start",), "budget_s": 60.0, "max_tries": 60}

# the first N runs are repeated in interpreters with another PYTHONHASHSEED
CROSS_HASHSEED = 64

EVIDENCE = {
    "rule": (
        "scenario = nested pair (35 nucleotide pairs incl. two user-defined nulls: by rate matrix F81/HKY85/TN93/GTR/GN, JC69/K80; by motif-probability "
        "freedom K80->HKY85, JC69->F81; by scope: global vs per-edge / edge-set parameter, a null that already has a two-scope parameter refined further, and pairs nested by matrix and scope at once; in 40% of matrix/mprobs pairs the null holds one rate parameter constant, everywhere or on an edge set; in 25% the richer function is not at its default values when initialised; in 30% it is built on another description of the same topology (child order, node names, root position: must be refused or exact); 30% of app scenarios use split_codons; 4% (quick) / 6% (thorough) of scenarios use one of 11 codon pairs: MG94HKY->MG94GTR, CNFHKY->CNFGTR, Y98->H04G/H04GK/H04GGK, H04G/H04GK->H04GGK, scope pairs on MG94HKY, Y98, H04GK, CNFGTR) "
        "x tree (3-5 taxa) x simulated alignment (length, divergence, base composition) x start values x optimiser "
        "settings (local / global / both, tolerance, max_restarts, seed, bounds) x cut-offs n1, n2 from 1..400 x "
        "a plan-chosen pseudo-random region of parameter space (0/3/10/30% of points) in which a calculator update is "
        "cancelled (ArithmeticError / ParameterOutOfBoundsError), deterministic per point; 15-30% of scenarios sweep the cut-off n=1..24 (quick) / 1..60 (thorough) from the "
        "same start; 15% also run the pair through the hypothesis app. evaluations = optimise calls checked + "
        "nested initialisations. distinct = distinct (pair, kind, n1, n2, local flags, faults on/off, sweep, tree) digests"
    ),
    "real": ["cogent3.maths.optimisers (limited_use, bounded_function, maximise), scipy_optimisers.Powell, "
             "simannealingoptimiser, recalculation.scope.optimise / calculation.Calculator.optimise, "
             "evolve.likelihood_function.initialise_from_nested and projection, app.evo model/hypothesis (real code)"],
    "stub": ["none: evaluation failures are injected by making Calculator.plain_update raise CalculationInterupted in a plan-chosen region of parameter space; annealing random stream seeded from the plan"],
    "assumptions": [
        "a pair is used only if alt.get_num_free_params() > null.get_num_free_params() (the API's own notion of nested)",
        "J1 rtol/atol 1e-6; J2 slack 1e-8*max(1,|lnL|); J3 uses numpy.isclose slack as the code does",
        "J1 has no fault or schedule in it; it is checked on the states the simulated cut-off fits reach",
    ],
    "expected_probes": ["cut-off-sweep", "hypothesis-app", "nested-init-exact:matrix", "nested-init-exact:scope-indep",
                        "nested-init-exact:scope-edges", "nested-init-exact:mprobs", "nested-init-exact:scope2-indep",
                        "nested-init-exact:scope2-edges", "alt-not-at-defaults", "different-tree-description-refused",
                        "hypothesis-app-split-codons", "codon-pair", "null-holds-constant-rate:everywhere",
                        "null-holds-constant-rate:edge-set"],
    "explanation": "C16 cuts optimiser runs at swept evaluation counts with injected evaluation failures and checks the nested-initialisation and monotonicity invariants.",
}
