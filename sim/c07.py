"""C07: incrementally recalculated likelihoods equal a fresh calculation.

Both cache layers of the recalculation machinery are roll-back machinery
driven by cancellation, and this engine drives them through plan-generated
histories in which evaluations are cancelled at plan-chosen points:

level "calc"  a real Calculator (lf.make_calculator()) is driven through full
              vectors, single/multiple changes, exact / partial / superset
              reversals of the previous change, and changes during which the
              n-th cell evaluation raises ParameterOutOfBoundsError or
              ArithmeticError (the exceptions real numerics raise there, which
              Calculator.change turns into a cancelled evaluation + undo).
              After every step the calculator must be self-consistent: its
              output and every cell equal those of a freshly made calculator
              moved in one step to calc.last_values.
level "lf"    a real likelihood function is driven through set_param_rule
              (scopes, constants, bounds), set_motif_probs, set_alignment,
              updates_postponed batches (some left by an exception),
              apply_param_rules with a bad rule, optimise cut off at n
              evaluations (local and global, seeded) and calculator
              round-trips.  After every step a *new* function built from the
              same model/tree/alignment with apply_param_rules(
              lf.get_param_rules()) must report the same lnL and number of
              free parameters; at the end a forced full recomputation must not
              change lnL.
"""

from __future__ import annotations

import hashlib
import io
import math
import contextlib
import warnings

import numpy

from core import RunResult

TREES = (
    "(a:0.1,b:0.2,c:0.3);",
    "((a:0.1,b:0.2):0.05,c:0.3,d:0.15);",
    "((a:0.1,b:0.2):0.05,(c:0.3,d:0.15):0.07,e:0.2);",
)
MODELS = ("HKY85", "HKY85", "F81", "GTR", "HKY85+G", "TN93", "GN", "HKY85+mp", "HKY85@2loci", "GTR@2loci",
          "HKY85", "GTR", "HKY85+G", "HKY85@2loci", "HKY85+free")
LOCI = ["l0", "l1"]


# ---------------------------------------------------------------------------
# generation


def _gen_calc_ops(rng, n_ops):
    ops = []
    for _ in range(n_ops):
        r = rng.random()
        if r < 0.25:
            ops.append({"op": "full", "fracs": [round(rng.random(), 4) for _ in range(12)],
                        "keep": [rng.random() < 0.5 for _ in range(12)]})
        elif r < 0.55:
            k = rng.choice([1, 1, 2, 3])
            ops.append({"op": "change", "idx": [rng.randint(0, 11) for _ in range(k)],
                        "fracs": [round(rng.random(), 4) for _ in range(k)]})
        elif r < 0.85:
            ops.append({"op": "revert", "how": rng.choice(["exact", "exact", "subset", "first", "last", "superset",
                                                           "superset-other"]),
                        "idx": rng.randint(0, 11), "frac": round(rng.random(), 4)})
        else:
            ops.append({"op": "repeat"})
        if rng.random() < 0.22:
            ops[-1]["fail"] = {"pos": rng.randint(0, 30), "exc": rng.choice(["bounds", "arith"])}
    return ops


def _frac(rng):
    # half of the values come from a small pool, so that later rules re-use a
    # value an earlier rule gave to another scope (re-grouping without a new value)
    return rng.choice([0.2, 0.5, 0.8]) if rng.random() < 0.5 else round(rng.random(), 4)


def _gen_lf_ops(rng, n_ops, depth=0):
    ops = []
    for _ in range(n_ops):
        r = rng.random()
        if r < 0.30:
            ops.append({"op": "rule", "par": rng.randint(0, 7), "how": rng.choice(
                ["init", "init", "const", "bounds", "indep", "edges", "edges", "edges-const", "free", "locus"]),
                "frac": _frac(rng), "edges": [rng.randint(0, 7) for _ in range(rng.randint(1, 3))]})
        elif r < 0.34:
            # move an edge into an existing scope of a parameter without introducing a new value
            ops.append({"op": "regroup", "pick": rng.randint(0, 7), "edge": rng.randint(0, 7)})
        elif r < 0.42:
            ops.append({"op": "length", "edge": rng.randint(0, 7), "frac": round(rng.random(), 4),
                        "const": rng.random() < 0.25})
        elif r < 0.50:
            ops.append({"op": "mprobs", "vals": [round(rng.uniform(0.05, 1), 3) for _ in range(4)]})
        elif r < 0.53:
            ops.append({"op": "aln", "which": rng.randint(0, 2)})
        elif r < 0.56:
            ops.append({"op": "time_het", "how": rng.choice(["max", "sets", "const"]),
                        "edges": [rng.randint(0, 7) for _ in range(rng.randint(1, 3))],
                        "frac": round(rng.random(), 4)})
        elif r < 0.68 and depth == 0:
            inner = _gen_lf_ops(rng, rng.randint(1, 4), depth=1)
            if rng.random() < 0.3:
                # something applied and then undone inside one batch
                inner = [{"op": "aln", "which": rng.randint(0, 2)}] + inner + [{"op": "aln", "which": "back"}]
            ops.append({"op": "batch", "ops": inner,
                        "raise_at": rng.choice([None, None, 0, 1, 2, 3]), "via": rng.choice(["with", "apply"])})
        elif r < 0.84 and depth == 0:
            ops.append({"op": "optimise", "n": rng.choice([1, 2, 3, 5, 8, 13, 21, 34, 55]),
                        "local": rng.choice([True, True, False, None]), "seed": rng.randint(0, 99)})
        elif r < 0.92 and depth == 0:
            ops.append({"op": "calc", "idx": [rng.randint(0, 11) for _ in range(rng.randint(1, 3))],
                        "fracs": [round(rng.random(), 4) for _ in range(3)], "steps": rng.randint(1, 3)})
        elif depth == 0:
            ops.append({"op": "bad_rule", "how": rng.choice(["unknown", "bounds", "edge"])})
        else:
            ops.append({"op": "length", "edge": rng.randint(0, 7), "frac": round(rng.random(), 4), "const": False})
    return ops


def gen(rng, tier, index):
    level = "calc" if index % 3 else "lf"
    model = rng.choice(MODELS)
    if tier == "thorough" and rng.random() < 0.04:
        model = "MG94HKY"
    plan = {
        "engine": "c07",
        "level": level,
        "model": model,
        "tree": rng.randint(0, len(TREES) - 1),
        "aln_seed": rng.randint(0, 5),
        "len": rng.choice([30, 60, 120]),
        "setup": _gen_lf_ops(rng, rng.randint(0, 3), depth=1),
        "with_undo": True,
        "trace": False,
    }
    if level == "calc":
        r = rng.random()
        if r < 0.05:
            plan["with_undo"] = False
        elif r < 0.13:
            plan["trace"] = True
        plan["ops"] = _gen_calc_ops(rng, rng.randint(4, 14 if tier == "quick" else 40))
    else:
        plan["ops"] = _gen_lf_ops(rng, rng.randint(3, 9 if tier == "quick" else 24))
        if rng.random() < 0.5:
            # start from a function that already has an edge-scoped parameter
            plan["setup"].append({"op": "rule", "par": rng.randint(0, 7), "how": "edges", "frac": _frac(rng),
                                  "edges": [rng.randint(0, 7) for _ in range(rng.randint(1, 2))]})
        # reading lnL / exporting rules may itself refresh lazily computed values and
        # hide a stale one: after some ops nothing is read
        for o in plan["ops"]:
            o["peek"] = rng.random() < 0.6
        plan["ops"][-1]["peek"] = True
        plan["fault_free"] = rng.random() < 0.3
        if plan["fault_free"]:
            plan["ops"] = [o for o in plan["ops"] if o["op"] not in ("bad_rule",)]
            for o in plan["ops"]:
                if o["op"] == "batch":
                    o["raise_at"] = None
    return plan


# ---------------------------------------------------------------------------
# building blocks


_MODEL_CACHE = {}


def get_sm(name):
    from cogent3 import get_model

    if name not in _MODEL_CACHE:
        if name == "HKY85+G":
            _MODEL_CACHE[name] = get_model("HKY85", ordered_param="rate", distribution="gamma")
        elif name == "HKY85+free":
            _MODEL_CACHE[name] = get_model("HKY85", ordered_param="rate", distribution="free")
        elif name == "HKY85+mp":
            _MODEL_CACHE[name] = get_model("HKY85", optimise_motif_probs=True)
        elif name.endswith("@2loci"):
            _MODEL_CACHE[name] = get_model(name.split("@")[0])
        else:
            _MODEL_CACHE[name] = get_model(name)
    return _MODEL_CACHE[name]


def make_aln(plan, which=0):
    import random

    from cogent3 import make_aligned_seqs, make_tree

    tree = make_tree(TREES[plan["tree"]])
    names = tree.get_tip_names()
    r = random.Random(f"{plan['aln_seed']}|{which}|{plan['len']}")
    codon = plan["model"].startswith("MG94")
    n = plan["len"] if not codon else 3 * max(8, plan["len"] // 6)
    base = [r.choice("ACGT") for _ in range(n)]
    if codon:
        codons = ["ATG", "GCT", "GAA", "TTT", "CCA", "GGT", "AAC", "CTG", "TCA", "CAT"]
        base = list("".join(r.choice(codons) for _ in range(n // 3)))
    seqs = {}
    for nm in names:
        s = list(base)
        for i in range(len(s)):
            if r.random() < 0.25:
                s[i] = r.choice("ACGT")
        if codon:
            # keep stop codons out
            txt = "".join(s)
            fixed = []
            for k in range(0, len(txt), 3):
                c = txt[k:k + 3]
                fixed.append("GCT" if c in ("TAA", "TAG", "TGA") else c)
            s = list("".join(fixed))
        seqs[nm] = "".join(s)
    return make_aligned_seqs(seqs, moltype="dna"), tree


def new_lf(plan, aln, tree):
    sm = get_sm(plan["model"])
    kw = {"bins": 3} if plan["model"] == "HKY85+G" else {"bins": 2} if plan["model"] == "HKY85+free" else {}
    if plan["model"].endswith("@2loci"):
        kw["loci"] = list(LOCI)  # aln is then a list, one alignment per locus
    lf = sm.make_likelihood_function(tree, **kw)
    lf.set_alignment(aln)
    return lf


def fresh_from_rules(plan, aln, tree, rules):
    lf = new_lf(plan, aln, tree)
    lf.apply_param_rules(rules)
    return lf


def _rate_params(lf):
    return [p for p in lf.get_param_names() if p not in ("mprobs", "length", "bprobs", "rate")]


def _frac_value(frac, lo=0.05, hi=4.0):
    return round(lo + frac * (hi - lo), 6)


class Ctx:
    def __init__(self, plan):
        self.plan = plan
        self.aln, self.tree = make_aln(plan, 0)
        if plan["model"].endswith("@2loci"):
            self.aln = [self.aln, make_aln(plan, 10)[0]]
        self.alns = {0: self.aln}
        self.cur_aln = 0
        self.edges = [e.name for e in self.tree.get_edge_vector(include_root=False)]
        self.lf = new_lf(plan, self.aln, self.tree)

    def aln_n(self, which):
        if which not in self.alns:
            self.alns[which], _ = make_aln(self.plan, which)
            if self.plan["model"].endswith("@2loci"):
                self.alns[which] = [self.alns[which], make_aln(self.plan, which + 10)[0]]
        return self.alns[which]


def apply_lf_op(ctx: Ctx, op, res: RunResult, in_batch=False):
    """apply one function-level op; raises whatever the API raises"""
    lf = ctx.lf
    name = op["op"]
    if name == "rule":
        pars = _rate_params(lf)
        if not pars:
            return "skip"
        par = pars[op["par"] % len(pars)]
        val = _frac_value(op["frac"])
        how = op["how"]
        edges = sorted({ctx.edges[e % len(ctx.edges)] for e in op["edges"]})
        if how == "locus":
            if not ctx.plan["model"].endswith("@2loci"):
                how = "init"
            elif op["frac"] < 0.3:
                lf.set_param_rule(par, loci=list(LOCI), is_independent=True, init=val)
            elif op["frac"] < 0.6:
                # scoped by edge and locus at once: what is left is not a cross-product
                lf.set_param_rule(par, edges=edges, locus=LOCI[op["par"] % 2], init=val)
            else:
                lf.set_param_rule(par, locus=LOCI[op["par"] % 2], is_constant=op["frac"] > 0.8, **(
                    {"value": val} if op["frac"] > 0.8 else {"init": val}))
        if how == "edges" and ctx.plan["model"] == "HKY85+G" and op["frac"] > 0.6:
            # scoped by edge and bin at once
            lf.set_param_rule(par, edges=edges, bin=lf.bin_names[op["par"] % len(lf.bin_names)], init=val)
            return "rule:edges+bin"
        if how == "init":
            lf.set_param_rule(par, init=val)
        elif how == "const":
            lf.set_param_rule(par, is_constant=True, value=val)
        elif how == "free":
            lf.set_param_rule(par, is_constant=False, init=val)
        elif how == "bounds":
            lf.set_param_rule(par, init=val, lower=max(1e-6, val / 3), upper=val * 3)
        elif how == "indep":
            lf.set_param_rule(par, is_independent=True, init=val)
        elif how == "edges":
            lf.set_param_rule(par, edges=edges, is_independent=op["frac"] < 0.5, init=val)
        elif how == "edges-const":
            lf.set_param_rule(par, edges=edges, is_constant=True, value=val)
        return f"rule:{how}"
    if name == "length":
        edge = ctx.edges[op["edge"] % len(ctx.edges)]
        val = _frac_value(op["frac"], 0.01, 1.5)
        if op["frac"] < 0.08:
            val = 0.0  # exactly on the lower bound
        if op["const"]:
            lf.set_param_rule("length", edge=edge, is_constant=True, value=val)
        else:
            lf.set_param_rule("length", edge=edge, is_constant=False, init=val)
        return "length"
    if name == "mprobs":
        tot = sum(op["vals"])
        mp = {b: v / tot for b, v in zip("ACGT", op["vals"])}
        if ctx.plan["model"].startswith("MG94"):
            return "skip"
        if ctx.plan["model"] == "HKY85+free" and op["vals"][0] < 0.5:
            # the free parameters behind the per-bin rates
            v = 0.1 + 0.8 * op["vals"][1]
            lf.set_param_rule("rate_partition", init=[v, 1.0 - v])
            return "rate_partition"
        if ctx.plan["model"].endswith("@2loci") and op["vals"][0] < 0.5:
            lf.set_motif_probs(mp, locus=LOCI[op["vals"][1] < 0.5])
            return "mprobs"
        lf.set_motif_probs(mp)
        return "mprobs"
    if name == "regroup":
        scoped = [r for r in lf.get_param_rules()
                  if r["par_name"] in _rate_params(lf) and ("edges" in r or "edge" in r) and not r.get("is_constant")]
        if not scoped:
            return "skip"
        rule = scoped[op["pick"] % len(scoped)]
        edges = list(rule.get("edges") or [rule["edge"]])
        extra = ctx.edges[op["edge"] % len(ctx.edges)]
        if extra in edges:
            return "skip"
        lf.set_param_rule(rule["par_name"], edges=sorted(edges + [extra]), is_independent=False, init=rule["init"])
        return "regroup"
    if name == "time_het":
        if not _rate_params(lf):
            return "skip"
        edges = sorted({ctx.edges[e % len(ctx.edges)] for e in op["edges"]})
        if op["how"] == "max":
            lf.set_time_heterogeneity(is_independent=True)
        elif op["how"] == "sets":
            lf.set_time_heterogeneity(edge_sets=[dict(edges=edges, is_independent=op["frac"] < 0.5)])
        else:
            lf.set_time_heterogeneity(edge_sets=[dict(edges=edges, is_constant=True, value=_frac_value(op["frac"]))])
        return f"time_het:{op['how']}"
    if name == "aln":
        which = op["which"]
        if which == "back":
            which = getattr(ctx, "batch_start_aln", ctx.cur_aln)
        ctx.cur_aln = which
        lf.set_alignment(ctx.aln_n(which))
        return "aln"
    raise ValueError(name)


class _Planned(Exception):
    pass


def run_lf(plan, res: RunResult):
    ctx = Ctx(plan)
    lf = ctx.lf
    replay = plan
    trace = []

    def oracle(after, fault):
        """(a) fresh function from exported rules agrees on lnL and nfp"""
        try:
            got = lf.lnL
            nfp = lf.get_num_free_params()
            rules = lf.get_param_rules()
        except Exception as e:  # noqa: BLE001
            res.add(f"C07.observe-raised/{after}:{fault}:{type(e).__name__}",
                    f"reading lnL / rules after {trace} raised {e!r}", replay)
            return False
        try:
            fresh = fresh_from_rules(plan, ctx.aln_n(ctx.cur_aln), ctx.tree, rules)
            want = fresh.lnL
            want_nfp = fresh.get_num_free_params()
        except Exception as e:  # noqa: BLE001
            res.add(f"C07.rules-roundtrip/{after}:{fault}:{type(e).__name__}",
                    f"exported rules cannot be applied to a new function after {trace}: {e!r}; rules={rules}", replay)
            return False
        if not (math.isfinite(got) and math.isfinite(want)):
            res.probe("non-finite-lnL")
            return True
        res.values.append(f"{got:.9g}")
        if not numpy.isclose(got, want, rtol=1e-9, atol=1e-9):
            changed = []
            try:
                for a, b in zip(rules, fresh.get_param_rules()):
                    if repr(a) != repr(b):
                        changed.append((a, b))
            except Exception:  # noqa: BLE001
                pass
            recomputed = None
            try:
                lf.update_intermediate_values()
                recomputed = lf.lnL
            except Exception:  # noqa: BLE001
                pass
            cls = f"C07.stale/{after}:{fault}"
            try:
                from cogent3.recalculation.definition import PartitionDefn

                floored = [
                    d.name for d in lf.defns if isinstance(d, PartitionDefn)
                    and any((not st.is_constant) and (numpy.asarray(st.value) < 1.0000001e-6).any() for st in d.uniq)
                ]
            except Exception:  # noqa: BLE001
                floored = []
            if floored and recomputed is not None and numpy.isclose(recomputed, got, rtol=1e-12, atol=0):
                # not a stale cache: get_param_rules() floors exported probabilities at 1e-6
                cls = "C07.rules-roundtrip/minprob-floor"
            elif (plan["model"] == "HKY85+free" and recomputed is not None
                  and numpy.isclose(recomputed, got, rtol=1e-12, atol=0)
                  and not any(r["par_name"] == "rate_partition" for r in rules)):
                # not a stale cache either: the partition behind a "free" rate distribution
                # is not a user parameter and is missing from the exported rules (C07-K3)
                cls = "C07.rules-roundtrip/free-partition-not-exported"
            res.add(cls,
                    f"lnL={got!r} but a new function with the same rules gives {want!r} (diff {got - want:.3e}) "
                    f"after {trace}; after forcing a full recomputation the function itself reports {recomputed!r}; "
                    f"free partition parameters with a component below 1e-6: {floored}; "
                    f"rules that do not survive export/import: {changed[:3]}", replay)
            return False
        if nfp != want_nfp:
            res.add(f"C07.nfp/{after}:{fault}", f"nfp={nfp} vs fresh {want_nfp} after {trace}", replay)
            return False
        return True

    fault = "none"
    with warnings.catch_warnings():
        warnings.simplefilter("ignore")
        for op in plan["setup"]:
            try:
                apply_lf_op(ctx, op, res)
            except Exception:  # noqa: BLE001
                pass
        if not oracle("setup", "none"):
            return
        for op in plan["ops"]:
            name = op["op"]
            kind = name
            raised = None
            out = io.StringIO()
            try:
                with contextlib.redirect_stdout(out):
                    if name in ("rule", "length", "mprobs", "aln", "time_het", "regroup"):
                        kind = apply_lf_op(ctx, op, res) or name
                    elif name == "batch":
                        kind = f"batch-{op['via']}"
                        ctx.batch_start_aln = ctx.cur_aln
                        if op["via"] == "with":
                            with lf.updates_postponed():
                                for k, inner in enumerate(op["ops"]):
                                    if op["raise_at"] is not None and k == op["raise_at"]:
                                        raise _Planned("exception inside the postponed-update block")
                                    apply_lf_op(ctx, inner, res, in_batch=True)
                        else:
                            rules = []
                            for k, inner in enumerate(op["ops"]):
                                if op["raise_at"] is not None and k == op["raise_at"]:
                                    rules.append({"par_name": "no_such_parameter", "init": 1.0})
                                if inner["op"] == "length":
                                    edge = ctx.edges[inner["edge"] % len(ctx.edges)]
                                    rules.append({"par_name": "length", "edge": edge,
                                                  "init": _frac_value(inner["frac"], 0.01, 1.5)})
                                elif inner["op"] == "rule" and _rate_params(lf):
                                    pars = _rate_params(lf)
                                    rules.append({"par_name": pars[inner["par"] % len(pars)],
                                                  "init": _frac_value(inner["frac"])})
                            lf.apply_param_rules(rules)
                    elif name == "bad_rule":
                        kind = f"bad_rule-{op['how']}"
                        if op["how"] == "unknown":
                            lf.set_param_rule("no_such_parameter", init=1.0)
                        elif op["how"] == "bounds":
                            pars = _rate_params(lf) or ["length"]
                            lf.set_param_rule(pars[0], init=1.0, lower=5.0, upper=1.0)
                        else:
                            lf.set_param_rule("length", edge="no_such_edge", init=0.1)
                    elif name == "optimise":
                        kind = f"optimise-{'local' if op['local'] else 'global' if op['local'] is False else 'both'}"
                        kw = {}
                        if op["local"] is not True:
                            kw["seed"] = op["seed"]
                        before = lf.lnL
                        lf.optimise(max_evaluations=op["n"], local=op["local"], limit_action="ignore",
                                    show_progress=False, **kw)
                        res.probe("optimise-cut-off")
                    elif name == "calc":
                        kind = "calc-roundtrip"
                        lc = lf.make_calculator()
                        x = list(lc.get_value_array())
                        if x:
                            lo, hi = lc.get_bounds_vectors()
                            for s in range(op["steps"]):
                                ch = []
                                for i, fr in zip(op["idx"], op["fracs"]):
                                    j = i % len(x)
                                    a, b = max(lo[j], -3.0), min(hi[j], 3.0)
                                    if a == 0.0:
                                        a = 1e-3
                                    ch.append((j, a + ((fr + 0.31 * s) % 1.0) * (b - a)))
                                lc.change(list(dict(ch).items()))
                            lf.update_from_calculator(lc)
            except _Planned as e:
                raised = e
                res.fault("batch_left_by_exception")
            except Exception as e:  # noqa: BLE001
                raised = e
                res.fault(f"op_raised:{name}")
            fault = "none" if raised is None else f"{kind}-raised"
            trace.append(kind + ("!" if raised is not None else ""))
            if not op.get("peek", True):
                res.probe("step-not-observed")
                continue
            if not oracle(kind, "after-raise" if raised is not None else "ok"):
                return
        # (b) a forced full recomputation must not change the value
        before = lf.lnL
        try:
            lf.update_intermediate_values()
            after = lf.lnL
            if math.isfinite(before) and not numpy.isclose(before, after, rtol=1e-9, atol=1e-9):
                res.add("C07.stale/full-recompute", f"lnL {before!r} becomes {after!r} after recomputing every "
                        f"definition; history {trace}", replay)
        except Exception as e:  # noqa: BLE001
            res.add(f"C07.observe-raised/full-recompute:{type(e).__name__}", f"{e!r} after {trace}", replay)
    res.sample_trace = trace


# ---------------------------------------------------------------------------
# calculator level


def _cell_values(calc):
    out = []
    for cell in calc._cells:
        v = calc._get_current_cell_value(cell)
        out.append(v)
    return out


def _same(a, b):
    try:
        if isinstance(a, (float, int, numpy.floating)) or isinstance(a, numpy.ndarray):
            return bool(numpy.allclose(a, b, rtol=1e-10, atol=1e-12, equal_nan=True))
    except Exception:
        return True
    return True  # non-numeric cells (alignment, model objects) are not compared


def run_calc(plan, res: RunResult):
    from cogent3.maths.optimisers import ParameterOutOfBoundsError
    from cogent3.recalculation.calculation import EvaluatedCell

    ctx = Ctx(plan)
    lf = ctx.lf
    replay = plan
    with warnings.catch_warnings():
        warnings.simplefilter("ignore")
        for op in plan["setup"]:
            try:
                apply_lf_op(ctx, op, res)
            except Exception:  # noqa: BLE001
                pass
        mk = {"with_undo": plan.get("with_undo", True), "trace": plan.get("trace", False)}
        calc = lf.make_calculator(**mk)
        n = len(calc.opt_pars)
        if n == 0:
            res.probe("no-free-parameters")
            return
        lo, hi = calc.get_bounds_vectors()
        lo = [max(a, -3.0) if a < 0 else max(a, 1e-3) for a in lo]
        hi = [min(b, 3.0) for b in hi]

        def value(i, frac):
            return float(lo[i] + frac * (hi[i] - lo[i]))

        trace = []
        last_change = []  # [(i, old value)] of the previous successful step
        for op in plan["ops"]:
            name = op["op"]
            cur = list(calc.last_values)
            if name == "full":
                x = [cur[i] if op["keep"][i % 12] else value(i, op["fracs"][i % 12]) for i in range(n)]
                changes = [(i, v) for i, v in enumerate(x) if v != cur[i]]
                call = ("full", x)
            elif name == "change":
                ch = {}
                for i, fr in zip(op["idx"], op["fracs"]):
                    ch[i % n] = value(i % n, fr)
                changes = sorted(ch.items())
                call = ("change", changes)
            elif name == "repeat":
                changes = []
                call = ("full", cur)
            else:  # revert
                how = op["how"]
                if not last_change:
                    changes = [(op["idx"] % n, value(op["idx"] % n, op["frac"]))]
                elif how == "exact":
                    changes = list(last_change)
                    res.probe("exact-reversal")
                elif how == "subset":
                    changes = list(last_change)[: max(1, len(last_change) // 2)]
                    res.probe("partial-reversal")
                elif how == "first":
                    changes = [sorted(last_change)[0]]
                    res.probe("partial-reversal")
                elif how == "last":
                    changes = [sorted(last_change)[-1]]
                    res.probe("partial-reversal")
                else:
                    extra_i = op["idx"] % n
                    d = dict(last_change)
                    if how == "superset-other" and extra_i in d and n > 1:
                        extra_i = (extra_i + 1) % n
                    d[extra_i] = value(extra_i, op["frac"])
                    changes = sorted(d.items())
                    res.probe("reversal-plus-more")
                call = ("change", changes)

            # fault: the n-th cell of this step's program raises
            wrapped = None
            if "fail" in op and changes:
                program = calc.cells_changed_by(changes)
                cands = [c for c in program if isinstance(c, EvaluatedCell)]
                if cands:
                    cell = cands[op["fail"]["pos"] % len(cands)]
                    exc = ParameterOutOfBoundsError("injected") if op["fail"]["exc"] == "bounds" else \
                        ArithmeticError("injected")
                    orig = cell.calc
                    cell.failure_count = 100  # keep report_error quiet

                    def boom(*a, _exc=exc):
                        raise _exc

                    cell.calc = boom
                    wrapped = (cell, orig)
            raised = None
            ret = None
            try:
                if call[0] == "full":
                    ret = calc(call[1])
                else:
                    ret = calc.change(call[1])
            except (ParameterOutOfBoundsError, ArithmeticError) as e:
                raised = e
            except Exception as e:  # noqa: BLE001
                raised = e
                res.add(f"C07.calc-raised/{name}:{type(e).__name__}", f"{call} raised {e!r} after {trace}", replay)
            finally:
                if wrapped:
                    wrapped[0].calc = wrapped[1]
            if wrapped and raised is not None:
                res.fault("eval_error")
                if last_change and any(ch in changes for ch in last_change):
                    res.probe("cancel-after-undo-candidate")
            elif wrapped:
                res.probe("injected-cell-not-evaluated")
            if calc.last_undo == [] and raised is None and changes and last_change and \
                    all(c in changes for c in last_change):
                res.probe("undo-shortcut-taken")
            path = "cancel" if raised is not None else ("undo" if name == "revert" else name)
            if plan.get("trace"):
                path = f"trace-{path}"
            elif not plan.get("with_undo", True):
                path = f"noundo-{path}"
            trace.append(f"{name}{'!' if raised is not None else ''}{len(changes)}")
            if raised is None:
                last_change = [(i, cur[i]) for i, _v in changes]
            else:
                last_change = []

            # ---- a completed step must have moved to the requested point ---------
            if raised is None:
                expect = list(cur)
                for i, v in changes:
                    expect[i] = v
                if not numpy.allclose(calc.last_values, expect, rtol=0, atol=0):
                    res.add(f"C07.calc-inconsistent/{path}:requested",
                            f"after a completed {call} from {cur} the calculator is at {list(calc.last_values)}, "
                            f"not at the requested {expect}; history {trace}", replay)
                    return

            # ---- oracle (c): self-consistency with a fresh calculator -----------
            fresh = lf.make_calculator()
            target = list(calc.last_values)
            try:
                want = fresh(target)
            except Exception as e:  # noqa: BLE001
                res.probe("fresh-calculator-raised")
                continue
            got = calc.testfunction()
            res.values.append(f"{float(got):.9g}")
            if not _same(got, want):
                res.add(f"C07.calc-inconsistent/{path}:output",
                        f"output {got!r} but a fresh calculator at last_values gives {want!r} after {trace}; "
                        f"last op {call}", replay)
                return
            if raised is None and ret is not None and not _same(ret, got):
                res.add(f"C07.calc-inconsistent/{path}:return",
                        f"change() returned {ret!r} but the calculator now reports {got!r} after {trace}", replay)
                return
            va = calc.get_value_array()
            if not numpy.allclose(va, target, rtol=1e-10, atol=1e-12):
                res.add(f"C07.calc-inconsistent/{path}:values",
                        f"get_value_array()={list(va)} but last_values={target} after {trace}", replay)
                return
            a, b = _cell_values(calc), _cell_values(fresh)
            for k, (u, v) in enumerate(zip(a, b)):
                if not _same(u, v):
                    res.add(f"C07.calc-inconsistent/{path}:cell",
                            f"cell {calc._cells[k].name}#{k} differs from a fresh calculator after {trace}; last op {call}",
                            replay)
                    return
        res.sample_trace = trace


# ---------------------------------------------------------------------------


def run(plan, tier="quick") -> RunResult:
    res = RunResult()
    res.config = plan["level"] + ("-fault-free" if plan.get("fault_free") else "") + (
        "-trace" if plan.get("trace") else "") + ("" if plan.get("with_undo", True) else "-noundo")
    res.sample_trace = []
    res.values = []  # every observed value: part of the run digest
    out = io.StringIO()
    with contextlib.redirect_stdout(out):
        if plan["level"] == "calc":
            run_calc(plan, res)
        else:
            run_lf(plan, res)
    res.executions = 1
    res.events = len(plan["ops"])
    trace = getattr(res, "sample_trace", [])
    h = hashlib.sha256(repr(trace).encode())
    h.update(repr(res.values).encode())
    h.update(repr(sorted(v.cls for v in res.violations)).encode())
    res.digest = h.hexdigest()
    if len(trace) > 1:
        res.shapes.append(hashlib.sha256(f"{plan['level']}|{plan['model']}|{trace}".encode()).hexdigest()[:16])
    res.sample = describe(plan)
    return res


def describe(plan):
    return {"level": plan["level"], "model": plan["model"], "tree": TREES[plan["tree"]], "len": plan["len"],
            "setup": plan["setup"], "ops": plan["ops"]}


MINIMISE_KW = {"protect": ("engine", "level", "model", "op", "how", "via", "exc", "local", "tree", "len"),
               "list_keys": ("ops", "setup", "idx", "edges"), "budget_s": 60.0, "max_tries": 200}

# the first N runs are repeated in interpreters with another PYTHONHASHSEED
CROSS_HASHSEED = 160

EVIDENCE = {
    "rule": (
        "history = plan-generated ops. calc level (2/3 of runs): 4-14 (quick) / 4-40 (thorough) steps of full vectors, "
        "single/multiple changes, exact/partial/superset reversals of the previous step, repeats, with a plan-chosen cell "
        "of the step's update program raising ParameterOutOfBoundsError/ArithmeticError (cancelled evaluation) on ~22% of "
        "steps. lf level (1/3): 3-9 / 3-24 ops of set_param_rule (scopes, constant, bounds), set_motif_probs, "
        "set_alignment, updates_postponed batches (some left by an exception), apply_param_rules with a bad rule, "
        "rejected single calls, optimise cut off at n evaluations (local/global/both, seeded), calculator round-trips; "
        "models F81/HKY85/TN93/GTR/GN/HKY85+Gamma, HKY85 with free motif probabilities, HKY85 and GTR over two loci (locus-scoped rules and motif probabilities) (MG94HKY in thorough), 3-5 taxa. Non-trivial = more than one step; "
        "distinct = distinct (level, model, step-kind trace with raised marks) digests"
    ),
    "real": ["cogent3.recalculation (Calculator, ParameterController, definitions), evolve.parameter_controller, "
             "evolve.likelihood_function, maths.optimisers + Powell + simulated annealing (real code)"],
    "stub": ["none: cancellation is injected by wrapping a cell's calc for one step; the optimiser's random stream is seeded from the plan"],
    "assumptions": [
        "a cancelled change may legitimately leave the calculator in the undone state: only self-consistency with a fresh calculator at calc.last_values is required",
        "an op that raised is only required to leave a consistent function (lnL equal to a new function built from the exported rules); nothing is asserted about how much of the failed op was applied",
        "rtol 1e-9 for lnL comparisons, 1e-10 for cell values",
    ],
    "expected_probes": ["exact-reversal", "partial-reversal", "reversal-plus-more", "undo-shortcut-taken",
                        "optimise-cut-off", "cancel-after-undo-candidate"],
    "explanation": "C07 compares the cached value with an independent rebuild after every step of histories that contain cancelled evaluations and batches left by exceptions.",
}
