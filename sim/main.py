"""check launcher: /verif/check <property> [--tier quick|thorough] [--replay FILE] [--survey]

Exit codes: 0 = property held on everything explored (known findings are
printed as KNOWN-FINDING lines); 1 = a violation that is not a listed known
finding (one ``VIOLATION property=<id> replay=<path>`` line each); 2 = harness
error or time-out (never 0, never a VIOLATION line).
"""

from __future__ import annotations

import argparse
import faulthandler
import importlib
import json
import os
import subprocess
import sys
import time
import traceback

HERE = os.path.dirname(os.path.abspath(__file__))
VERIF = os.path.dirname(HERE)
sys.path.insert(0, HERE)

import core  # noqa: E402
import simos  # noqa: E402

simos.install_hooks()  # before anything imports cogent3

# property -> list of engine modules
ENGINES = {
    "C19": ["c19a", "c19b"],
    "C13": ["c13"],
    "C14": ["c14"],
    "C07": ["c07"],
    "C16": ["c16"],
}

# per engine, per tier: (max runs, soft wall budget in seconds)
TIERS = {
    "c19a": {"quick": (2000, 60), "thorough": (60000, 1200)},
    "c19b": {"quick": (96, 75), "thorough": (4000, 2400)},
    "c13": {"quick": (20000, 70), "thorough": (600000, 1800)},
    "c14": {"quick": (8000, 70), "thorough": (300000, 1800)},
    "c07": {"quick": (6000, 80), "thorough": (200000, 1800)},
    "c16": {"quick": (2000, 80), "thorough": (60000, 2400)},
}

RUN_TIMEOUT_S = 300  # a single simulated run must never take this long
RECYCLE_RSS_KB = int(os.environ.get("VERIF_RECYCLE_KB", "1500000"))  # a shard above this resident size is replaced by a fresh interpreter


def repo_root():
    return os.environ.get("VERIF_REPO", "/repo")


def child_env(hashseed):
    env = dict(os.environ)
    env["PYTHONPATH"] = os.path.join(repo_root(), "src") + os.pathsep + HERE
    env["PYTHONHASHSEED"] = str(hashseed)
    env["DONT_USE_MPI"] = "1"
    return env


def core_scratch():
    for base in ("/dev/shm", "/tmp"):
        if os.path.isdir(base) and os.access(base, os.W_OK):
            return base
    return "/tmp"


def existing_engines(prop):
    return [e for e in ENGINES[prop] if os.path.exists(os.path.join(HERE, f"{e}.py"))]


# ---------------------------------------------------------------------------
# worker (one shard)


def worker(args):
    import warnings

    warnings.simplefilter("ignore")
    engine = importlib.import_module(args.engine)
    out = {
        "engine": args.engine, "shard": args.shard, "runs": 0, "executions": 0,
        "events": 0, "sim_time": 0.0, "faults": {}, "probes": {}, "shapes": [],
        "violations": [], "samples": [], "digests": {}, "configs": {}, "error": None,
    }
    shapes = set()
    t0 = time.time()
    seen_classes = {}
    import resource

    out["next"] = None
    try:
        i = args.start if args.start is not None else args.shard
        while i < args.max_runs:
            if time.time() - t0 > args.budget and out["runs"] > 0:
                break
            if out["runs"] and resource.getrusage(resource.RUSAGE_SELF).ru_maxrss > RECYCLE_RSS_KB:
                # cogent3 keeps every unpickled MolType alive: a long-lived shard grows
                # by ~0.5 MB per parallel run.  Hand over to a fresh interpreter.
                out["next"] = i
                break
            faulthandler.dump_traceback_later(RUN_TIMEOUT_S, exit=True)
            rng = core.make_rng(args.seed, args.engine, i)
            plan = engine.gen(rng, args.tier, i)
            res = engine.run(plan, args.tier)
            faulthandler.cancel_dump_traceback_later()
            out["runs"] += 1
            out["executions"] += res.executions
            out["events"] += res.events
            out["sim_time"] += res.sim_time
            out["configs"][res.config] = out["configs"].get(res.config, 0) + 1
            for k, v in res.faults.items():
                out["faults"][k] = out["faults"].get(k, 0) + v
            for k, v in res.probes.items():
                out["probes"][k] = out["probes"].get(k, 0) + v
            shapes.update(res.shapes)
            if args.digests or i < args.digest_upto:
                out["digests"][str(i)] = res.digest
            if len(out["samples"]) < 2 and res.sample is not None:
                out["samples"].append({"run": i, "plan": res.sample})
            for v in res.violations:
                rec = seen_classes.get(v.cls)
                if rec is None:
                    rec = {"class": v.cls, "count": 0, "run": i, "detail": v.detail,
                           "replay": v.replay, "size": len(core.dumps(v.replay))}
                    seen_classes[v.cls] = rec
                rec["count"] += 1
                size = len(core.dumps(v.replay))
                if size < rec["size"]:
                    rec.update(run=i, detail=v.detail, replay=v.replay, size=size)
            i += args.nshards
    except BaseException:
        out["error"] = traceback.format_exc()
    out["shapes"] = sorted(shapes)
    out["violations"] = list(seen_classes.values())
    out["wall_s"] = time.time() - t0
    with open(args.out, "w") as f:
        json.dump(out, f)
    return 0 if out["error"] is None else 2


# ---------------------------------------------------------------------------
# replay (runs in a fresh interpreter with the file's hash seed)


def replay(args):
    with open(args.replay) as f:
        rep = json.load(f)
    if rep.get("cross_hashseeds"):
        a, b = (cross_digest(args.replay, h) for h in rep["cross_hashseeds"])
        print(f"digest under PYTHONHASHSEED={rep['cross_hashseeds'][0]}: {a}\n"
              f"digest under PYTHONHASHSEED={rep['cross_hashseeds'][1]}: {b}")
        if a != b:
            print(f"VIOLATION property={rep['property']} replay={os.path.abspath(args.replay)}")
            return 1
        print("replay did not reproduce: digests agree")
        return 0
    want_hs = str(rep.get("hashseed", 0))
    if os.environ.get("PYTHONHASHSEED") != want_hs or not os.environ.get("VERIF_CHILD"):
        env = child_env(want_hs)
        env["VERIF_CHILD"] = "1"
        return subprocess.call([sys.executable, os.path.abspath(__file__)] + sys.argv[1:], env=env)
    engine = importlib.import_module(rep["engine"])
    res = engine.run(rep["plan"], rep.get("tier", "quick"))
    classes = sorted({v.cls for v in res.violations})
    hit = rep["violation_class"] in classes
    if not args.quiet:
        print(f"replay engine={rep['engine']} expect={rep['violation_class']}")
        print(f"digest={res.digest} recorded={rep.get('event_digest')}")
        for v in res.violations:
            print(f"  {v.cls}: {v.detail[:600]}")
    if hit:
        print(f"VIOLATION property={rep['property']} replay={os.path.abspath(args.replay)}")
        return 1
    print("replay did not reproduce the recorded violation class; saw:", classes)
    return 0


# ---------------------------------------------------------------------------
# parent


def run_engine(prop, engine_name, tier, seed, nshards, overrides):
    max_runs, budget = TIERS[engine_name][tier]
    if overrides.get("runs"):
        max_runs = overrides["runs"]
    if overrides.get("budget"):
        budget = overrides["budget"]
    scratch = os.path.join(core_scratch(), f"verif-run-{simos._real_getpid()}-{engine_name}")
    os.makedirs(scratch, exist_ok=True)
    t_start = time.time()
    hard = budget * 4 + 600
    results, errors = [], []
    todo = [(s, None) for s in range(nshards)]  # (shard, start index or None)
    generation = 0
    while todo:
        remaining = budget - (time.time() - t_start)
        if generation and remaining <= 1:
            break
        procs = []
        for s, start in todo:
            out = os.path.join(scratch, f"shard{s}-g{generation}.json")
            cmd = [sys.executable, os.path.abspath(__file__), "--worker", "--engine", engine_name,
                   "--tier", tier, "--seed", str(seed), "--shard", str(s), "--nshards", str(nshards),
                   "--max-runs", str(max_runs), "--budget", str(max(1, remaining)), "--out", out]
            if start is not None:
                cmd += ["--start", str(start)]
            if overrides.get("digests"):
                cmd += ["--digests", "1"]
            if overrides.get("digest_upto"):
                cmd += ["--digest-upto", str(overrides["digest_upto"])]
            log = open(os.path.join(scratch, f"shard{s}-g{generation}.log"), "w")
            hs = overrides.get("hashseed")
            env = child_env((s % 4 if hs is None else hs) + overrides.get("hashseed_offset", 0))
            env["VERIF_CHILD"] = "1"
            procs.append((s, out, log, subprocess.Popen(cmd, env=env, stdout=log, stderr=subprocess.STDOUT)))
        todo = []
        for s, out, log, p in procs:
            try:
                rc = p.wait(timeout=max(5, hard - (time.time() - t_start)))
            except subprocess.TimeoutExpired:
                p.kill()
                rc = -9
            log.close()
            data = None
            if os.path.exists(out):
                with open(out) as f:
                    data = json.load(f)
            if rc != 0 or data is None or data.get("error"):
                with open(log.name) as f:
                    tail = f.read()[-3000:]
                errors.append(f"shard {s} rc={rc}: {(data or {}).get('error') or tail}")
            if data is not None:
                results.append(data)
                if data.get("next") is not None:
                    todo.append((s, data["next"]))
        generation += 1
    import shutil

    shutil.rmtree(scratch, ignore_errors=True)
    return results, errors, max_runs


def merge(results):
    agg = {"runs": 0, "executions": 0, "events": 0, "sim_time": 0.0, "faults": {}, "probes": {},
           "shapes": set(), "violations": {}, "samples": [], "configs": {}, "digests": {}}
    for r in results:
        for k in ("runs", "executions", "events", "sim_time"):
            agg[k] += r[k]
        for key in ("faults", "probes", "configs"):
            for k, v in r[key].items():
                agg[key][k] = agg[key].get(k, 0) + v
        if r.get("next") is not None:
            agg["probes"]["shard-interpreter-recycled"] = agg["probes"].get("shard-interpreter-recycled", 0) + 1
        agg["shapes"].update(r["shapes"])
        agg["samples"].extend(r["samples"])
        agg["digests"].update(r.get("digests", {}))
        for v in r["violations"]:
            cur = agg["violations"].get(v["class"])
            if cur is None:
                agg["violations"][v["class"]] = dict(v)
            else:
                cur["count"] += v["count"]
                if v["size"] < cur["size"]:
                    for k in ("run", "detail", "replay", "size"):
                        cur[k] = v[k]
    return agg


def cross_digest(path, hashseed):
    env = child_env(hashseed)
    env["VERIF_CHILD"] = "1"
    r = subprocess.run([sys.executable, os.path.abspath(__file__), "C07", "--cross", path], env=env,
                       capture_output=True, text=True)
    lines = [ln for ln in r.stdout.splitlines() if ln.startswith("DIGEST ")]
    return lines[-1].split()[1] if lines else f"error:{r.returncode}"


def write_cross(prop, engine_name, tier, seed, v):
    engine = importlib.import_module(engine_name)
    rep = {
        "property": prop, "engine": engine_name, "tier": tier, "seed": seed, "run_index": v["run"],
        "hashseed": 0, "cross_hashseeds": [0, 17], "violation_class": v["class"], "detail": v["detail"],
        "plan": v["replay"], "human_readable_plan": engine.describe(v["replay"]),
    }
    d = os.path.join(os.environ.get("VERIF_REPLAY_DIR") or os.path.join(VERIF, "replays"), prop)
    os.makedirs(d, exist_ok=True)
    path = os.path.join(d, f"{seed}-{core.slug(v['class'])}.json")
    with open(path, "w") as f:
        json.dump(rep, f, indent=1, sort_keys=True)
    a, b = cross_digest(path, 0), cross_digest(path, 17)
    if a == b:
        # not every pair of hash seeds need differ: try the pair the batch used
        i = v["run"]
        rep["cross_hashseeds"] = [i % 4, i % 4 + 17]
        with open(path, "w") as f:
            json.dump(rep, f, indent=1, sort_keys=True)
        a, b = cross_digest(path, rep["cross_hashseeds"][0]), cross_digest(path, rep["cross_hashseeds"][1])
    return path, (a != b and not a.startswith("error") and not b.startswith("error"))


def minimise_and_write(prop, engine_name, tier, seed, v, hashseed=0):
    """shrink the plan in-process, then confirm in a fresh interpreter"""
    if v.get("cross"):
        return write_cross(prop, engine_name, tier, seed, v)
    engine = importlib.import_module(engine_name)

    def still(plan):
        r = engine.run(plan, tier)
        return any(x.cls == v["class"] for x in r.violations)

    plan = v["replay"]
    tries = 0
    try:
        if still(plan):
            kw = getattr(engine, "MINIMISE_KW", {})
            plan, tries = core.minimise(plan, still, **kw)
    except Exception:
        traceback.print_exc()
    res = engine.run(plan, tier)
    detail = next((x.detail for x in res.violations if x.cls == v["class"]), v["detail"])
    rep = {
        "property": prop, "engine": engine_name, "tier": tier, "seed": seed, "run_index": v["run"],
        "hashseed": hashseed, "violation_class": v["class"], "detail": detail,
        "event_digest": res.digest, "minimiser_executions": tries, "plan": plan,
        "human_readable_plan": engine.describe(plan),
    }
    d = os.path.join(os.environ.get("VERIF_REPLAY_DIR") or os.path.join(VERIF, "replays"), prop)
    os.makedirs(d, exist_ok=True)
    path = os.path.join(d, f"{seed}-{core.slug(v['class'])}.json")
    with open(path, "w") as f:
        json.dump(rep, f, indent=1, sort_keys=True)
    env = child_env(hashseed)
    rc = subprocess.call([sys.executable, os.path.abspath(__file__), prop, "--replay", path, "--quiet"],
                         env=env, stdout=subprocess.DEVNULL)
    return path, rc == 1


def check(args):
    prop = args.property
    tier = args.tier or os.environ.get("VERIF_TIER") or "quick"
    seed = int(os.environ.get("VERIF_SEED", "0") or 0)
    t0 = time.time()
    engines = existing_engines(prop)
    if args.engine:
        engines = [e for e in engines if e == args.engine]
    if not engines:
        print(f"no engine for {prop}")
        return 2
    nshards = args.shards or min(16, os.cpu_count() or 4)
    nshards = max(4, nshards - nshards % 4)
    overrides = {"runs": args.runs, "budget": args.budget, "digests": args.digests,
                 "hashseed": args.hashseed, "digest_upto": 0}
    known_entries = core.known_for(prop)
    all_errors, per_engine, unlisted, observed_known = [], {}, [], {}
    for en in engines:
        overrides["digest_upto"] = 0 if args.no_cross else getattr(importlib.import_module(en), "CROSS_HASHSEED", 0)
        results, errors, max_runs = run_engine(prop, en, tier, seed, nshards, overrides)
        all_errors.extend(errors)
        agg = merge(results)
        agg["max_runs"] = max_runs
        per_engine[en] = agg
        cross_n = getattr(importlib.import_module(en), "CROSS_HASHSEED", 0) if not args.no_cross else 0
        if cross_n and not args.digests:
            # the same run indices again in interpreters with another hash seed:
            # everything observable must be identical (worker processes of a real
            # pool, and a resumed run, do not share the master's hash seed)
            ov = dict(overrides, runs=min(cross_n, max_runs), digest_upto=cross_n, hashseed_offset=17, budget=None)
            results2, errors2, _ = run_engine(prop, en, tier, seed, 4, ov)
            all_errors.extend(errors2)
            d2 = merge(results2)["digests"]
            diff = sorted((k for k in d2 if k in agg["digests"] and agg["digests"][k] != d2[k]), key=int)
            agg["cross_hashseed_runs"] = len([k for k in d2 if k in agg["digests"]])
            agg["probes"]["cross-hashseed-compared"] = agg["cross_hashseed_runs"]
            if diff:
                i = int(diff[0])
                eng = importlib.import_module(en)
                plan = eng.gen(core.make_rng(seed, en, i), tier, i)
                cls = f"{prop}.hashseed-dependent/{en}"
                agg["violations"][cls] = {
                    "class": cls, "count": len(diff), "run": i, "size": 0, "cross": True,
                    "detail": f"run {i} gives different observable results under PYTHONHASHSEED "
                              f"{i % nshards % 4} and {i % 4 + 17} ({len(diff)} of {agg['cross_hashseed_runs']} compared runs differ)",
                    "replay": plan,
                }
        for cls, v in sorted(agg["violations"].items()):
            k = core.match_known(cls, known_entries)
            if k is not None:
                observed_known[k["id"]] = observed_known.get(k["id"], 0) + v["count"]
            else:
                unlisted.append((en, v))
    if args.digests:
        out = {en: per_engine[en]["digests"] for en in per_engine}
        with open(args.digests, "w") as f:
            json.dump(out, f, sort_keys=True)

    rc = 0
    replay_paths = []
    if args.survey:
        print(f"survey: {len(unlisted)} unlisted violation classes, {len(observed_known)} known")
        for en, v in unlisted:
            print(f"- [{en}] {v['class']} x{v['count']} run={v['run']}\n    {v['detail'][:700]}")
    else:
        for en, v in unlisted[: args.max_report]:
            path, confirmed = minimise_and_write(prop, en, tier, seed, v, hashseed=v["run"] % nshards % 4
                                                 if args.hashseed is None else args.hashseed)
            if confirmed:
                print(f"VIOLATION property={prop} replay={path}")
                print(f"  class={v['class']} count={v['count']}")
                replay_paths.append(path)
                rc = 1
            else:
                all_errors.append(f"violation {v['class']} (run {v['run']}) did not replay in a fresh interpreter: {path}")
        if len(unlisted) > args.max_report:
            print(f"... and {len(unlisted) - args.max_report} more unlisted violation classes (use --survey)")
            rc = 1
    for k in known_entries:
        n = observed_known.get(k["id"], 0)
        print(f"KNOWN-FINDING: property={prop} id={k['id']} {k['what_fails']} "
              f"({'observed %d times in this run' % n if n else 'not reached in this run'})")

    write_evidence(prop, tier, seed, per_engine, time.time() - t0, len(unlisted), sorted(observed_known),
                   all_errors)
    for e in all_errors:
        print("HARNESS-ERROR:", e[:3000], file=sys.stderr)
    if all_errors and rc == 0:
        rc = 2
    total_runs = sum(a["runs"] for a in per_engine.values())
    total_exec = sum(a["executions"] for a in per_engine.values())
    from importlib.util import find_spec

    spec = find_spec("cogent3")
    print(f"cogent3 under test: {os.path.dirname(spec.origin) if spec and spec.origin else '?'}")
    print(f"{prop} tier={tier} seed={seed} runs={total_runs} executions={total_exec} "
          f"unlisted_violation_classes={len(unlisted)} known_observed={len(observed_known)} "
          f"wall={time.time() - t0:.1f}s exit={rc}")
    return rc


def write_evidence(prop, tier, seed, per_engine, wall, n_unlisted, known_observed, errors):
    meta = {}
    for en in per_engine:
        m = importlib.import_module(en)
        meta[en] = getattr(m, "EVIDENCE", {})
    level = "fault_enumeration" if prop == "C19" else "exploration"
    evaluations = sum(a["executions"] for a in per_engine.values())
    distinct = sum(len(a["shapes"]) for a in per_engine.values())
    runs = sum(a["runs"] for a in per_engine.values())
    faults, probes, configs = {}, {}, {}
    for en, a in per_engine.items():
        for k, v in a["faults"].items():
            faults[f"{en}.{k}"] = v
        for k, v in a["probes"].items():
            probes[f"{en}.{k}"] = v
        for k, v in a["configs"].items():
            configs[f"{en}.{k}"] = v
    samples = []
    for en, a in per_engine.items():
        samples.extend({"engine": en, **s} for s in a["samples"][:3])
    zero_probes = []
    for en, a in per_engine.items():
        for p in meta[en].get("expected_probes", []):
            if not a["probes"].get(p):
                zero_probes.append(f"{en}.{p}")
    ev = {
        "property_id": prop, "tier": tier, "seed": seed, "level": level,
        "coverage": {
            "evaluations": evaluations,
            "distinct_nontrivial": distinct,
            "rule": " | ".join(f"{en}: {meta[en].get('rule', '')}" for en in per_engine),
            "samples": samples or [{"note": "no run completed"}],
            "exhaustive": False,
            "scenarios": runs,
            "scenario_budget": {en: a["max_runs"] for en, a in per_engine.items()},
            "runs_per_hour": round(evaluations / max(wall, 1e-9) * 3600),
            "scenarios_per_hour": round(runs / max(wall, 1e-9) * 3600),
            "sim_events": sum(a["events"] for a in per_engine.values()),
            "sim_time_covered_s": round(sum(a["sim_time"] for a in per_engine.values()), 3),
            "faults_fired": faults,
            "probes": probes,
            "probes_stuck_at_zero": zero_probes,
            "configurations": configs,
            "real_components": sorted({c for en in per_engine for c in meta[en].get("real", [])}),
            "stub_components": sorted({c for en in per_engine for c in meta[en].get("stub", [])}),
            "known_findings_observed": known_observed,
            "unlisted_violation_classes": n_unlisted,
            "harness_errors": len(errors),
            "explanation": " ".join(meta[en].get("explanation", "") for en in per_engine).strip(),
        },
        "assumptions": sorted({c for en in per_engine for c in meta[en].get("assumptions", [])}),
        "wall_s": round(wall, 2),
        "violations": n_unlisted,
    }
    if prop == "C19":
        ev["coverage"]["exhaustive_dimension"] = (
            "per scenario every gated call index is used as a kill point and as an OSError point; "
            "scenarios themselves are sampled"
        )
    d = os.environ.get("VERIF_EVIDENCE_DIR") or os.path.join(VERIF, "evidence")
    os.makedirs(d, exist_ok=True)
    with open(os.path.join(d, f"{prop}.json"), "w") as f:
        json.dump(ev, f, indent=1, sort_keys=True)


def main():
    ap = argparse.ArgumentParser()
    ap.add_argument("property", nargs="?")
    ap.add_argument("--tier", choices=["quick", "thorough"])
    ap.add_argument("--replay")
    ap.add_argument("--quiet", action="store_true")
    ap.add_argument("--survey", action="store_true")
    ap.add_argument("--runs", type=int)
    ap.add_argument("--budget", type=float)
    ap.add_argument("--shards", type=int)
    ap.add_argument("--hashseed", type=int)
    ap.add_argument("--max-report", type=int, default=8)
    ap.add_argument("--digests", help="write per-run digests to this file")
    ap.add_argument("--no-cross", action="store_true", help="skip the cross-hash-seed comparison")
    ap.add_argument("--one", type=int, help="developer: execute run index N of --engine in-process and print it")
    # worker mode
    ap.add_argument("--worker", action="store_true")
    ap.add_argument("--engine")
    ap.add_argument("--seed", type=int, default=0)
    ap.add_argument("--shard", type=int, default=0)
    ap.add_argument("--nshards", type=int, default=1)
    ap.add_argument("--max-runs", type=int, default=1)
    ap.add_argument("--out")
    ap.add_argument("--digest-upto", type=int, default=0)
    ap.add_argument("--start", type=int, default=None)
    ap.add_argument("--cross", help="replay helper: print the digest of the plan in this replay file")
    args = ap.parse_args()
    if args.worker:
        sys.exit(worker(args))
    if args.cross:
        with open(args.cross) as f:
            rep = json.load(f)
        res = importlib.import_module(rep["engine"]).run(rep["plan"], rep.get("tier", "quick"))
        print("DIGEST", res.digest)
        sys.exit(0)
    if args.property not in ENGINES:
        print(f"unknown property {args.property!r}; claimed: {sorted(ENGINES)}")
        sys.exit(2)
    if args.replay:
        sys.exit(replay(args))
    # the parent also imports cogent3 (minimiser): make sure it is /repo's tree
    if not os.environ.get("VERIF_CHILD"):
        env = child_env(0)
        env["VERIF_CHILD"] = "1"
        sys.exit(subprocess.call([sys.executable, os.path.abspath(__file__)] + sys.argv[1:], env=env))
    if args.one is not None:
        tier = args.tier or "quick"
        en = args.engine or existing_engines(args.property)[0]
        engine = importlib.import_module(en)
        seed = int(os.environ.get("VERIF_SEED", "0") or 0)
        plan = engine.gen(core.make_rng(seed, en, args.one), tier, args.one)
        print(json.dumps(plan, indent=1)[:6000])
        res = engine.run(plan, tier)
        for v in res.violations:
            print("VIOL", v.cls, "\n    ", v.detail[:1500])
        print("probes", res.probes, "faults", res.faults, "exec", res.executions, "digest", res.digest[:12])
        sys.exit(0)
    sys.exit(check(args))


if __name__ == "__main__":
    main()
