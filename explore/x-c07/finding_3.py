"""C07 finding 3: a set_param_rule whose recalculation raises is NOT refused
cleanly: the new setting stays assigned, every later (legal) set_param_rule on
another parameter raises as well but is assigned too, and in the meantime
lf.lnL / get_param_value silently report the values from BEFORE these changes,
while get_param_rules() exports the new ones.

Model: GeneralStationary (its rate matrix calculation raises
ParameterOutOfBoundsError for some parameter combinations, which the
optimiser relies on).
"""
import sys
import warnings

warnings.filterwarnings("ignore")
import numpy
from cogent3 import DNA, make_aligned_seqs, make_tree
from cogent3.evolve.ns_substitution_model import GeneralStationary

DATA = {
    "a": "ATGCCGATTACGGCTAGCTTAGGCATCGATCGGATCTTAGCGATCGATTTAGGC",
    "b": "ATGCCAATTACGGCTAGTTTAGGCATCGGTCGGATCTTGGCGATCGATCTAGGC",
    "c": "ATGCCGATCACGGTTAGCTTAGACATCGATCGAATCTTAGCGATTGATTTAGGA",
    "d": "ATGTCGATTACGGCTAGCCTAGGCATTGATCGGATCTTAGCAATCGATTTGGGC",
}
aln = make_aligned_seqs(data=DATA, moltype="dna")
TREE = "((a:0.1,b:0.2)ab:0.05,c:0.3,d:0.15)"


def build():
    lf = GeneralStationary(DNA.alphabet).make_likelihood_function(make_tree(TREE))
    lf.set_alignment(aln)
    return lf


def rule_value(lf, par, edge=None):
    for r in lf.get_param_rules():
        if r["par_name"] == par and r.get("edge") == edge:
            return r.get("init", r.get("value"))


lf = build()
lnL0 = lf.lnL
print("start lnL", lnL0)
for kw in (dict(par_name="A>C", init=150.0), dict(par_name="length", edge="a", init=0.7)):
    try:
        lf.set_param_rule(**kw)
        print("set_param_rule", kw, "-> ok")
    except Exception as e:  # noqa
        print("set_param_rule", kw, "-> raised", type(e).__name__)

lnL1 = lf.lnL
print("lnL reported now               :", lnL1, "(no exception)")
print("A>C via get_param_value        :", lf.get_param_value("A>C"))
print("A>C via get_param_rules        :", rule_value(lf, "A>C"))
print("length[a] via get_param_value  :", lf.get_param_value("length", edge="a"))
try:
    new = build()
    new.apply_param_rules(lf.get_param_rules())
    fresh = new.lnL
except Exception as e:  # noqa
    fresh = f"raises {type(e).__name__}"
print("new function from exported rules:", fresh)
try:
    c = lf.make_calculator().testfunction()
except Exception as e:  # noqa
    c = f"raises {type(e).__name__}"
print("lf.make_calculator()           :", c)

# the reported lnL is that of A>C=1.0, the function says A>C=150
stale = lnL1 == lnL0 and lf.get_param_value("A>C") == 150.0 and fresh != lnL1

# putting A>C back shows that the "refused" length change had been kept
lf.set_param_rule("A>C", init=1.0)
print("after A>C back to 1.0: lnL", lf.lnL, "length[a]", lf.get_param_value("length", edge="a"),
      "(the length rule that raised was applied after all)")

# ---- variant B: mainstream model, alignment of the wrong molecular type
from cogent3 import get_model

lf2 = get_model("HKY85").make_likelihood_function(make_tree(TREE))
lf2.set_alignment(aln)
b0 = lf2.lnL
rna = make_aligned_seqs(data={k: v.replace("T", "U") for k, v in DATA.items()}, moltype="rna")
for label, call in (
    ("set_alignment(rna)", lambda: lf2.set_alignment(rna)),
    ("set_param_rule(kappa, init=3)", lambda: lf2.set_param_rule("kappa", init=3.0)),
):
    try:
        call()
        print("B:", label, "-> ok")
    except Exception as e:  # noqa
        print("B:", label, "-> raised", type(e).__name__, str(e)[:40])
b1 = lf2.lnL
print("B: lnL before", b0, "| lnL reported now", b1, "| alignment held:",
      lf2.get_param_value("alignment").moltype.label, "| kappa held:", lf2.get_param_value("kappa"))
stale_b = b1 == b0 and lf2.get_param_value("alignment") is rna
stale = stale or stale_b
print("VIOLATION (lnL reported without error is not that of the reported settings)" if stale else "ok")
sys.exit(1 if stale else 0)
