"""C07 finding 4: a calculator made with with_undo=False
(lf.make_calculator(with_undo=False), a constructor option of Calculator) is
left half-updated by a rejected change vector: the parameter cell keeps the
rejected value while last_values is rolled back. The next, perfectly legal,
vector then returns the likelihood of a point nobody asked for (or raises).
With the default with_undo=True the same history is fine.
"""
import sys
import warnings

warnings.filterwarnings("ignore")
import numpy
from cogent3 import DNA, make_aligned_seqs, make_tree
from cogent3.evolve.ns_substitution_model import GeneralStationary

DATA = {
    "a": "ATGCCGATTACGGCTAGCTTAGGCATCGATCGGATCTTAGCGATCGATTTAGGC",
    "b": "ATGCCAATTACGGCTAGTTTAGGCATCGGTCGGATCTTGGCGATCGATCTAGGC",
    "c": "ATGCCGATCACGGTTAGCTTAGACATCGATCGAATCTTAGCGATTGATTTAGGA",
    "d": "ATGTCGATTACGGCTAGCCTAGGCATTGATCGGATCTTAGCAATCGATTTGGGC",
}
aln = make_aligned_seqs(data=DATA, moltype="dna")
lf = GeneralStationary(DNA.alphabet).make_likelihood_function(
    make_tree("((a:0.1,b:0.2)ab:0.05,c:0.3,d:0.15)")
)
lf.set_alignment(aln)

violated = False
for with_undo in (True, False):
    calc = lf.make_calculator(with_undo=with_undo)
    names = [p.name for p in calc.opt_pars]
    x = list(calc.get_value_array())
    print(f"--- with_undo={with_undo}; start {calc.testfunction()!r}")
    try:
        calc.change([(4, 2.0)])  # log(A>T)=2 is not possible for this model
        print("change 1 accepted")
    except Exception as e:  # noqa
        print(f"change [({names[4]}, 2.0)] rejected: {type(e).__name__}")
    print(f"   last_values[4]={calc.last_values[4]} cell value={calc.cell_values[calc._switch][4]!r}")
    x[6] = 3.1646031571319337  # a legal point, only T>G differs from start
    try:
        got = calc(x)
    except Exception as e:  # noqa
        got = f"raises {type(e).__name__}"
    want = lf.make_calculator()(x)
    print(f"   calc(x) = {got!r}; fresh calculator at the same x = {want!r}")
    bad = isinstance(got, str) or not numpy.isclose(got, want, rtol=1e-6, atol=0)
    print("   VIOLATION" if bad else "   ok")
    violated |= bad

sys.exit(1 if violated else 0)
