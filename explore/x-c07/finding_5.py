"""C07 finding 5 (lower confidence): Calculator.change() only rolls back on
ParameterOutOfBoundsError / ArithmeticError. Any other exception escaping from a
cell (here: the ValueError / LinAlgError the matrix exponentiators raise when a
rate becomes non-finite; a KeyboardInterrupt during an optimiser step takes the
same path) leaves the calculator switched to the half-computed buffer with
last_values already advanced. The next vector is then evaluated incrementally
against stale cells and a wrong likelihood is returned without any error.

History (default calculator, default expm):
  1. change([(kappa[a,b], 2.0), (kappa[rest], 800.0)])  -> raises ValueError
     (800 in the optimiser's log space is far outside the parameter's bounds;
     the calculator itself does not check bounds)
  2. calc(x) with kappa[a,b]=2.0 and everything else at its start value (legal)
"""
import sys
import warnings

warnings.filterwarnings("ignore")
import numpy
from cogent3 import get_model, make_aligned_seqs, make_tree

DATA = {
    "a": "ATGCCGATTACGGCTAGCTTAGGCATCGATCGGATCTTAGCGATCGATTTAGGC",
    "b": "ATGCCAATTACGGCTAGTTTAGGCATCGGTCGGATCTTGGCGATCGATCTAGGC",
    "c": "ATGCCGATCACGGTTAGCTTAGACATCGATCGAATCTTAGCGATTGATTTAGGA",
    "d": "ATGTCGATTACGGCTAGCCTAGGCATTGATCGGATCTTAGCAATCGATTTGGGC",
}
aln = make_aligned_seqs(data=DATA, moltype="dna")
lf = get_model("HKY85").make_likelihood_function(
    make_tree("((a:0.1,b:0.2)ab:0.05,c:0.3,d:0.15)")
)
lf.set_alignment(aln)
lf.set_param_rule("kappa", edges=["a", "b"], init=1.5)

calc = lf.make_calculator()
pars = [(p.name, sorted(s[0] for s in p.scope)) for p in calc.opt_pars]
i_ab = pars.index(("kappa", ["a", "b"]))
i_rest = [i for i, (n, s) in enumerate(pars) if n == "kappa" and i != i_ab][0]
x0 = list(calc.get_value_array())
print("start", calc.testfunction())
try:
    calc.change([(i_ab, 2.0), (i_rest, 800.0)])
    print("step 1 accepted")
except Exception as e:  # noqa
    print("step 1 raised", type(e).__name__, "-", str(e)[:50])
x = list(x0)
x[i_ab] = 2.0
got = calc(x)
want = lf.make_calculator()(x)
print("step 2: calc(x) =", repr(got), "| fresh calculator at the same x =", repr(want))
bad = not numpy.isclose(got, want, rtol=1e-6, atol=0)
print("VIOLATION" if bad else "ok")
sys.exit(1 if bad else 0)
