"""C07 finding 2: with distribution="free" rate/parameter bins, the free bin
partition (definition "<param>_partition", e.g. rate_partition) is never
exported by get_param_rules(), so rules applied to a new function (and the
to_json/deserialise round trip) give another log-likelihood.

History A: build, optimise (the optimiser moves rate_partition).
History B: build, one set_param_rule("rate_partition", ...) (no optimiser).
"""
import sys
import warnings

warnings.filterwarnings("ignore")
import numpy
from cogent3 import get_model, make_aligned_seqs, make_tree
from cogent3.util.deserialise import deserialise_object

# 60 constant columns followed by 24 fast columns
const = "ACGT" * 15
fast = {
    "a": "ACGTACGTACGTACGTACGTACGT",
    "b": "CAGTTCGAACTTGCGTCAGAACTT",
    "c": "ATGCATTTCCGAAGGTACTTCCGA",
    "d": "GCGAACTTAGGTCCGTTAGAACGG",
}
aln = make_aligned_seqs(data={k: const + v for k, v in fast.items()}, moltype="dna")
TREE = "((a:0.1,b:0.2)ab:0.05,c:0.3,d:0.15)"


def build():
    model = get_model("HKY85", ordered_param="rate", distribution="free")
    lf = model.make_likelihood_function(make_tree(TREE), bins=2)
    lf.set_alignment(aln)
    return lf


def compare(lf, label):
    rules = lf.get_param_rules()
    new = build()
    new.apply_param_rules(rules)
    rt = deserialise_object(lf.to_json())
    print(f"[{label}] parameters in exported rules: {sorted(set(r['par_name'] for r in rules))}")
    print(f"[{label}] rate per bin (original) : {lf.get_param_value_dict(['bin'], params=['rate'])['rate']}")
    print(f"[{label}] rate per bin (from rules): {new.get_param_value_dict(['bin'], params=['rate'])['rate']}")
    print(f"[{label}] original lnL={lf.lnL!r} nfp={lf.nfp}")
    print(f"[{label}] rules -> new lnL={new.lnL!r} nfp={new.nfp}")
    print(f"[{label}] to_json -> deserialise lnL={rt.lnL!r} nfp={rt.nfp}")
    bad = not numpy.isclose(lf.lnL, new.lnL, rtol=1e-6, atol=0) or lf.nfp != new.nfp
    bad = bad or not numpy.isclose(lf.lnL, rt.lnL, rtol=1e-6, atol=0)
    print("VIOLATION" if bad else "ok")
    return bad


violated = False
lf = build()
lf.optimise(local=True, max_evaluations=400, limit_action="ignore", show_progress=False)
violated |= compare(lf, "A optimised")

lf = build()
lf.set_param_rule("rate_partition", init=numpy.array([0.1, 0.9]))
violated |= compare(lf, "B set_param_rule")

sys.exit(1 if violated else 0)
