"""C07 finding 1: exported parameter rules do not reproduce the function when a
setting's scope is not a cross product of its dimensions (e.g. the "rest" left
over after one rule scoped by edge AND locus/bin).

History: ONE set_param_rule on a two-locus function.
"""
import sys
import warnings

warnings.filterwarnings("ignore")
import numpy
from cogent3 import get_model, make_aligned_seqs, make_tree
from cogent3.util.deserialise import deserialise_object

DATA = {
    "a": "ATGCCGATTACGGCTAGCTTAGGCATCGATCGGATCTTAGCGATCGATTTAGGC",
    "b": "ATGCCAATTACGGCTAGTTTAGGCATCGGTCGGATCTTGGCGATCGATCTAGGC",
    "c": "ATGCCGATCACGGTTAGCTTAGACATCGATCGAATCTTAGCGATTGATTTAGGA",
    "d": "ATGTCGATTACGGCTAGCCTAGGCATTGATCGGATCTTAGCAATCGATTTGGGC",
}
aln = make_aligned_seqs(data=DATA, moltype="dna")
TREE = "((a:0.1,b:0.2)ab:0.05,c:0.3,d:0.15)"


def build(kind):
    model = get_model("HKY85")
    if kind == "loci":
        lf = model.make_likelihood_function(make_tree(TREE), loci=["x", "y"])
        lf.set_alignment([aln[:30], aln[24:]])
    else:
        lf = model.make_likelihood_function(make_tree(TREE), bins=["lo", "hi"])
        lf.set_alignment(aln)
    return lf


violated = False
for kind, scope in (("loci", dict(locus="x")), ("bins", dict(bin="hi"))):
    lf = build(kind)
    lf.set_param_rule("kappa", edges=["a", "b"], init=4.0, **scope)
    rules = lf.get_param_rules()
    print(f"--- two {kind}: kappa rules exported")
    for r in rules:
        if r["par_name"] == "kappa":
            print("   ", r)
    new = build(kind)
    new.apply_param_rules(rules)
    print(f"original : lnL={lf.lnL!r} nfp={lf.nfp}")
    print(f"from rules: lnL={new.lnL!r} nfp={new.nfp}")
    bad = (not numpy.isclose(lf.lnL, new.lnL, rtol=1e-6, atol=0)) or lf.nfp != new.nfp
    # the same through the serialisation round trip, which uses the rules
    rt = deserialise_object(lf.to_json())
    print(f"to_json -> deserialise: lnL={rt.lnL!r} nfp={rt.nfp}")
    bad = bad or (not numpy.isclose(lf.lnL, rt.lnL, rtol=1e-6, atol=0)) or lf.nfp != rt.nfp
    print("VIOLATION" if bad else "ok")
    violated = violated or bad

sys.exit(1 if violated else 0)
