"""C07 finding 6 (lower confidence): ParameterController.update_from_calculator
copies calculator values into the settings one definition at a time and only
afterwards marks them changed. If one value is outside its bounds it raises
ParameterOutOfBoundsError half way: the settings of the definitions visited
earlier are already overwritten, nothing is marked dirty, and from then on the
function silently reports likelihoods of values it no longer holds - also after
later, successful, set_param_rule calls.

History: calc = lf.make_calculator(); calc.change([(kappa, log 3), (length[a], 50)])
(a change vector the calculator accepts); lf.update_from_calculator(calc) raises;
lf.set_param_rule("length", edge="b", init=0.3) succeeds.
"""
import sys
import warnings

warnings.filterwarnings("ignore")
import numpy
from cogent3 import get_model, make_aligned_seqs, make_tree

DATA = {
    "a": "ATGCCGATTACGGCTAGCTTAGGCATCGATCGGATCTTAGCGATCGATTTAGGC",
    "b": "ATGCCAATTACGGCTAGTTTAGGCATCGGTCGGATCTTGGCGATCGATCTAGGC",
    "c": "ATGCCGATCACGGTTAGCTTAGACATCGATCGAATCTTAGCGATTGATTTAGGA",
    "d": "ATGTCGATTACGGCTAGCCTAGGCATTGATCGGATCTTAGCAATCGATTTGGGC",
}
aln = make_aligned_seqs(data=DATA, moltype="dna")


def build():
    lf = get_model("HKY85").make_likelihood_function(
        make_tree("((a:0.1,b:0.2)ab:0.05,c:0.3,d:0.15)")
    )
    lf.set_alignment(aln)
    return lf


lf = build()
calc = lf.make_calculator()
pars = [(p.name, sorted(s[0] for s in p.scope)) for p in calc.opt_pars]
i_kappa = [i for i, (n, s) in enumerate(pars) if n == "kappa"][0]
i_len_a = pars.index(("length", ["a"]))
print("lnL at start", lf.lnL)
print("calculator accepts the vector:", calc.change([(i_kappa, numpy.log(3.0)), (i_len_a, 50.0)]))
try:
    lf.update_from_calculator(calc)
    print("update_from_calculator ok")
except Exception as e:  # noqa
    print("update_from_calculator raised", type(e).__name__, "-", e)
lf.set_param_rule("length", edge="b", init=0.3)  # succeeds
kappa_rule = [r for r in lf.get_param_rules() if r["par_name"] == "kappa"][0]["init"]
print("kappa via get_param_value:", lf.get_param_value("kappa"), "| kappa via get_param_rules:", kappa_rule)
new = build()
new.apply_param_rules(lf.get_param_rules())
print("lf.lnL =", repr(lf.lnL), "| new function from exported rules =", repr(new.lnL), "| nfp", lf.nfp, new.nfp)
bad = not numpy.isclose(lf.lnL, new.lnL, rtol=1e-6, atol=0)
print("VIOLATION" if bad else "ok")
sys.exit(1 if bad else 0)
