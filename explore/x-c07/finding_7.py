"""C07 finding 7: get_param_rules() does not export probability vectors /
matrices as held: Setting.get_param_rule_dict pushes every element <= 1e-6 up
to 1e-6 and rescales (adjusted_gt_minprob, applied twice). A function holding
smaller (legal) probabilities is therefore not reproduced by its own rules.

History: discrete-time model (BH), one set_param_rule giving a
constant substitution matrix (all edges) with off-diagonal 1e-9 (zeros are explicitly
allowed for constants). Same mechanism applies to optimised psubs / mprobs /
bprobs that end below 1e-6 (measured: BH optimised on 3 taxa, relative lnL
difference 3.4e-6).
"""
import sys
import warnings

warnings.filterwarnings("ignore")
import numpy
from cogent3 import get_model, make_aligned_seqs, make_tree

DATA = {
    "a": "ATGCCGATTACGGCTAGCTTAGGCATCGATCGGATCTTAGCGATCGATTTAGGC",
    "b": "ATGCCAATTACGGCTAGTTTAGGCATCGGTCGGATCTTGGCGATCGATCTAGGC",
    "c": "ATGCCGATCACGGTTAGCTTAGACATCGATCGAATCTTAGCGATTGATTTAGGA",
}
aln = make_aligned_seqs(data=DATA, moltype="dna")


def build():
    lf = get_model("BH").make_likelihood_function(make_tree("(a,b,c)"))
    lf.set_alignment(aln)
    return lf


eps = 1e-9
P = numpy.full((4, 4), eps)
numpy.fill_diagonal(P, 1 - 3 * eps)
lf = build()
lf.set_param_rule("psubs", value=P, is_constant=True)  # all edges
rules = lf.get_param_rules()
exported = [r for r in rules if r["par_name"] == "psubs"][0]["value"]
print("held P[T,C] on edge a   :", lf.get_psub_for_edge("a")["T"]["C"])
print("exported P[T,C] on edge a:", exported["T"]["C"])
new = build()
new.apply_param_rules(rules)
print("original lnL", repr(lf.lnL), "nfp", lf.nfp)
print("rules->new lnL", repr(new.lnL), "nfp", new.nfp)
bad = not numpy.isclose(lf.lnL, new.lnL, rtol=1e-6, atol=0) or lf.nfp != new.nfp
print("VIOLATION" if bad else "ok")
sys.exit(1 if bad else 0)
