"""C14 finding 3: the DataStoreSqlite returned by a first apply_to (opened
mode="w", still open and locked to this process) is used as the input of a
second composed app. Serial: every record completes. Parallel: every record
becomes NOT completed, because each worker re-creates the store from its
constructor arguments (DataStoreSqlite.__setstate__), i.e. in OVERWRITE mode,
and lock() refuses ("You are trying to OVERWRITE ... which is locked").
An in-memory (":memory:") input store behaves the same way (workers get a new
empty db).

Run with PYTHONPATH=<worktree>/src
"""
import pathlib
import sys
import tempfile

from cogent3 import get_app, open_data_store
from cogent3.app import io as io_app


def main():
    violated = False
    with tempfile.TemporaryDirectory() as d:
        d = pathlib.Path(d)
        ind = d / "in"
        ind.mkdir()
        for i in range(4):
            (ind / f"s{i}.fasta").write_text(f">a\nACGT{'A' * i}\n>b\nACGA{'A' * i}\n")
        ins = open_data_store(ind, suffix="fasta")
        mid = open_data_store(d / "mid.sqlitedb", mode="w")
        stage1 = io_app.load_aligned(moltype="dna") + io_app.write_db(mid)
        mid = stage1.apply_to(ins, logger=False)
        print("stage 1:", len(mid.completed), "completed,", len(mid.not_completed), "not completed")

        got = {}
        for label, kw in [
            ("serial", dict(parallel=False)),
            ("parallel", dict(parallel=True, par_kw=dict(max_workers=2))),
        ]:
            out = open_data_store(d / label, suffix="fasta", mode="w")
            app = (
                io_app.load_db()
                + get_app("take_named_seqs", "a")
                + io_app.write_seqs(out)
            )
            app.apply_to(mid, logger=False, **kw)
            got[label] = sorted(m.unique_id for m in out.members)
            print(f"{label:8s}:", got[label])
            for m in out.not_completed[:1]:
                print("   e.g.", m.read().replace("\\n", " ")[-200:])
        if got["serial"] != got["parallel"]:
            print("VIOLATION: outcome depends on parallel=")
            violated = True
    return 1 if violated else 0


if __name__ == "__main__":
    sys.exit(main())
