"""C14 finding 6: per-record outcome "wrong type" under parallel execution.
The last generic step returns, for ONE record, an object of the wrong type
that cannot be pickled (a generator). Serial: that record becomes a
not-completed record ("invalid data type"), all others complete. Parallel: the
worker cannot send the value back, concurrent.futures re-raises in
_as_completed_mproc (result.result()), apply_to raises TypeError and the
inputs not yet collected get no record.

Run with PYTHONPATH=<worktree>/src
"""
import pathlib
import sys
import tempfile

from cogent3 import open_data_store
from cogent3.app import io as io_app
from cogent3.app.composable import define_app
from cogent3.app.typing import AlignedSeqsType, SerialisableType


@define_app
def step(aln: AlignedSeqsType) -> SerialisableType:
    if "s2" in aln.info.source:
        return (x for x in range(3))  # wrong type for the writer
    return aln


def main():
    violated = False
    with tempfile.TemporaryDirectory() as d:
        d = pathlib.Path(d)
        ind = d / "in"
        ind.mkdir()
        n = 6
        for i in range(n):
            (ind / f"s{i}.fasta").write_text(f">a\nACGT{'A' * i}\n>b\nACGA{'A' * i}\n")
        ins = open_data_store(ind, suffix="fasta")
        for label, kw in [
            ("serial", dict(parallel=False)),
            ("parallel", dict(parallel=True, par_kw=dict(max_workers=2))),
        ]:
            out = open_data_store(d / label, suffix="fasta", mode="w")
            app = io_app.load_aligned(moltype="dna") + step() + io_app.write_seqs(out)
            raised = None
            try:
                app.apply_to(ins, logger=False, **kw)
            except Exception as e:
                raised = f"{type(e).__name__}: {e}"
            members = sorted(m.unique_id for m in out.members)
            print(f"{label:8s}: raised={raised!r}; {len(members)}/{n} records {members}")
            if raised or len(members) != n:
                print(f"VIOLATION ({label}): apply_to raised because one record failed / inputs unaccounted")
                violated = True
    return 1 if violated else 0


if __name__ == "__main__":
    sys.exit(main())
