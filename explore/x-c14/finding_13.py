"""C14 finding 13 (lower confidence, shipped apps declared with
skip_not_completed=False): a not-completed value does NOT pass unchanged
through the shipped generic apps to_primitive / pickle_it (io.py l.156-231).
load_aligned + to_primitive + write_json: the loader fails for one input, the
NotCompleted is converted to a dict by to_primitive and the writer stores it as
a COMPLETED record. The failed input is counted as completed, no not-completed
record exists.

Run with PYTHONPATH=<worktree>/src
"""
import pathlib
import sys
import tempfile

from cogent3 import open_data_store
from cogent3.app import io as io_app


def main():
    violated = False
    with tempfile.TemporaryDirectory() as d:
        d = pathlib.Path(d)
        ind = d / "in"
        ind.mkdir()
        (ind / "good.fasta").write_text(">a\nACGT\n>b\nACGA\n")
        (ind / "bad.fasta").write_text(">a\nACGT\n>b\nAC\n")  # ragged, loader raises
        ins = open_data_store(ind, suffix="fasta")
        out = open_data_store(d / "out", suffix="json", mode="w")
        app = io_app.load_aligned(moltype="dna") + io_app.to_primitive() + io_app.write_json(out)
        app.apply_to(ins, logger=False)
        done = sorted(m.unique_id for m in out.completed)
        failed = sorted(m.unique_id for m in out.not_completed)
        print("completed:", done, " not completed:", failed)
        bad = [m for m in out.completed if m.unique_id.startswith("bad")]
        if bad:
            print("content of completed record bad.json:", bad[0].read()[:160], "...")
            print("VIOLATION: failed input stored as a completed record")
            violated = True
    return 1 if violated else 0


if __name__ == "__main__":
    sys.exit(main())
