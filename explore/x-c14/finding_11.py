"""C14 finding 11: text writers (write_seqs / write_json / write_tabular) on a
DataStoreSqlite. They store a not-completed record under "<id>.json" but a
completed record under "<id>". When the same composed app is applied again
and the record now succeeds, DataStoreSqlite.write() drops not-completed
"<id>" (no such record), so the input ends with TWO records: completed "s1"
and not-completed "s1.json".  (With a DataStoreDirectory the stale record is
retired.)

Run with PYTHONPATH=<worktree>/src
"""
import pathlib
import sys
import tempfile

from cogent3 import open_data_store
from cogent3.app import io as io_app


def main():
    violated = False
    with tempfile.TemporaryDirectory() as d:
        d = pathlib.Path(d)
        ind = d / "in"
        ind.mkdir()
        for i in range(3):
            (ind / f"s{i}.fasta").write_text(f">a\nACGT{'A' * i}\n>b\nACGA{'A' * i}\n")
        good = (ind / "s1.fasta").read_text()
        (ind / "s1.fasta").write_text(">a\nACGT\n>b\nAC\n")  # ragged -> loader fails
        ins = open_data_store(ind, suffix="fasta")
        out = open_data_store(d / "out.sqlitedb", mode="w")
        app = io_app.load_aligned(moltype="dna") + io_app.write_seqs(out)
        app.apply_to(ins, logger=False)
        print("run 1: completed", sorted(m.unique_id for m in out.completed),
              "not completed", sorted(m.unique_id for m in out.not_completed))
        (ind / "s1.fasta").write_text(good)  # the cause of the failure is repaired
        app.apply_to(ins, logger=False)
        done = sorted(m.unique_id for m in out.completed)
        failed = sorted(m.unique_id for m in out.not_completed)
        print("run 2: completed", done, "not completed", failed)
        if len(done) + len(failed) != 3:
            print("VIOLATION: input s1 has both a completed and a not-completed record")
            violated = True
        out.close()
    return 1 if violated else 0


if __name__ == "__main__":
    sys.exit(main())
