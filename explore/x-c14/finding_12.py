"""C14 finding 12: inputs whose file suffix is upper case (A.FASTA).
get_format_suffixes() lower-cases the suffix, get_unique_id() then fails to
strip it (case-sensitive regex), DataStoreDirectory._write() accepts
"A.FASTA" as already carrying suffix "fasta" and writes the file A.FASTA.
The store object used by apply_to lists it, but the output data store opened
again (glob "*.fasta") does not: after apply_to the input has no visible
record; its not-completed sibling is named "bad.FASTA.json".

Run with PYTHONPATH=<worktree>/src
"""
import pathlib
import sys
import tempfile

from cogent3 import open_data_store
from cogent3.app import io as io_app


def main():
    violated = False
    with tempfile.TemporaryDirectory() as d:
        d = pathlib.Path(d)
        ind = d / "in"
        ind.mkdir()
        (ind / "A.FASTA").write_text(">a\nACGT\n>b\nACGA\n")
        (ind / "c.fasta").write_text(">a\nACGT\n>b\nACGA\n")
        (ind / "bad.FASTA").write_text(">a\nACGT\n>b\nAC\n")
        ins = open_data_store(ind, suffix="*")
        out = open_data_store(d / "out", suffix="fasta", mode="w")
        app = io_app.load_aligned(moltype="dna") + io_app.write_seqs(out)
        app.apply_to(ins, logger=False)
        live = sorted(m.unique_id for m in out.members)
        again = sorted(m.unique_id for m in open_data_store(d / "out", suffix="fasta").members)
        print("store object after apply_to:", live)
        print("same store opened again    :", again)
        if len(again) != 3:
            print("VIOLATION: input A.FASTA has no record in the output data store when it is opened")
            violated = True
    return 1 if violated else 0


if __name__ == "__main__":
    sys.exit(main())
