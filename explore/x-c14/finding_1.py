"""C14 finding 1: take_n_seqs (default arguments) remembers the names chosen
for the FIRST record it sees and reuses them for every later record. In serial
apply_to one app instance sees all records; in parallel every task gets a fresh
copy. The same inputs therefore give different content, and even a different
completed / not-completed split, depending on parallel= and on input order.

Run with PYTHONPATH=<worktree>/src
"""
import pathlib
import sys
import tempfile

from cogent3 import get_app, open_data_store
from cogent3.app import io as io_app


def fasta_names(text):
    return [l[1:] for l in text.splitlines() if l.startswith(">")]


def main():
    violated = False
    with tempfile.TemporaryDirectory() as d:
        d = pathlib.Path(d)
        ind = d / "in"
        ind.mkdir()
        orders = {"s0": "abcde", "s1": "bcdea", "s2": "cdeab", "s3": "xyzab"}
        paths = []
        for name, order in orders.items():
            p = ind / f"{name}.fasta"
            p.write_text("".join(f">{n}\nACGTACGT\n" for n in order))
            paths.append(p)

        # reference: the composed app (without writer) on each input alone
        alone = {}
        for p in paths:
            app = io_app.load_aligned(moltype="dna") + get_app("take_n_seqs", number=3)
            r = app(p)
            alone[p.stem] = list(r.names) if r else f"NotCompleted({r.message})"
        print("alone   :", alone)

        got = {}
        for label, kw in [
            ("serial", dict(parallel=False)),
            ("parallel", dict(parallel=True, par_kw=dict(max_workers=2))),
        ]:
            out = open_data_store(d / label, suffix="fasta", mode="w")
            app = (
                io_app.load_aligned(moltype="dna")
                + get_app("take_n_seqs", number=3)
                + io_app.write_seqs(out)
            )
            app.apply_to(paths, logger=False, **kw)
            res = {}
            for m in out.completed:
                res[pathlib.Path(m.unique_id).stem] = fasta_names(m.read())
            for m in out.not_completed:
                res[pathlib.Path(m.unique_id).stem] = "NOT COMPLETED"
            got[label] = res
            print(f"{label:8s}:", dict(sorted(res.items())))

        for label, res in got.items():
            for k, v in res.items():
                if v != alone[k]:
                    print(f"VIOLATION {label}: record {k} = {v}, app on that input alone = {alone[k]}")
                    violated = True
        if got["serial"] != got["parallel"]:
            print("VIOLATION: serial and parallel stores differ in content")
            violated = True
    return 1 if violated else 0


if __name__ == "__main__":
    sys.exit(main())
