"""C14 finding 2: evo.model without a tree (<=3 taxa) builds a tree from the
FIRST alignment it sees and keeps it (self._tree, unique_trees=False is the
default). Serial apply_to: a later alignment with other names becomes a
not-completed record. Parallel apply_to (fresh copy of the app per task) and
the app on that input alone: completed. Same for progressive_align
(self._guide_tree) and uniformize_tree (self._ordered_names).

Run with PYTHONPATH=<worktree>/src
"""
import pathlib
import sys
import tempfile

from cogent3 import get_app, open_data_store
from cogent3.app import io as io_app

SEQS = [
    "ACGTACGTAAGGCTAGCTAGCTAGGATCGA",
    "ACGTACGTAAGGCTAGTTAGCTAGGATCGA",
    "ACGAACGTAAGGCTAGTTAGCTGGGATCGA",
]


def main():
    violated = False
    with tempfile.TemporaryDirectory() as d:
        d = pathlib.Path(d)
        ind = d / "in"
        ind.mkdir()
        paths = []
        for stem, names in [("s0", "abc"), ("s1", "xyz"), ("s2", "abc")]:
            p = ind / f"{stem}.fasta"
            p.write_text("".join(f">{n}\n{s}\n" for n, s in zip(names, SEQS)))
            paths.append(p)

        alone = {}
        for p in paths:
            app = io_app.load_aligned(moltype="dna") + get_app(
                "model", "F81", show_progress=False
            )
            alone[p.stem] = "completed" if app(p) else "not completed"
        print("alone   :", alone)

        got = {}
        for label, kw in [
            ("serial", dict(parallel=False)),
            ("parallel", dict(parallel=True, par_kw=dict(max_workers=2))),
        ]:
            out = open_data_store(d / f"{label}.sqlitedb", mode="w")
            app = (
                io_app.load_aligned(moltype="dna")
                + get_app("model", "F81", show_progress=False)
                + io_app.write_db(out)
            )
            app.apply_to(paths, logger=False, **kw)
            res = {m.unique_id: "completed" for m in out.completed}
            for m in out.not_completed:
                res[m.unique_id] = "not completed"
                nc = io_app.DEFAULT_DESERIALISER(m.read())
                print(f"   {label} {m.unique_id}: {nc.message.strip().splitlines()[-1]}")
            got[label] = dict(sorted(res.items()))
            print(f"{label:8s}:", got[label])
            out.close()

        for label, res in got.items():
            if res != alone:
                print(f"VIOLATION: {label} outcome {res} != app on each input alone {alone}")
                violated = True
    return 1 if violated else 0


if __name__ == "__main__":
    sys.exit(main())
