"""C14 finding 7: write_db with a serialiser built from shipped apps that
contains a step with skip_not_completed=True (to_json). For a failing record
the serialiser hands the NotCompleted back unchanged, write_db.main passes that
object to DataStoreSqlite.write_not_completed, the md5 step raises TypeError,
the retry in apply_to raises the same TypeError again -> apply_to raises
because ONE record failed; records after it are never processed.

Run with PYTHONPATH=<worktree>/src
"""
import pathlib
import sys
import tempfile

from cogent3 import open_data_store
from cogent3.app import io as io_app
from cogent3.app.composable import define_app
from cogent3.app.typing import AlignedSeqsType, SerialisableType


@define_app
def maybe_fail(aln: AlignedSeqsType) -> SerialisableType:
    if "s1" in aln.info.source:
        raise ValueError("bad record")
    return aln


def main():
    violated = False
    with tempfile.TemporaryDirectory() as d:
        d = pathlib.Path(d)
        ind = d / "in"
        ind.mkdir()
        paths = []
        for i in range(4):
            p = ind / f"s{i}.fasta"
            p.write_text(f">a\nACGT{'A' * i}\n>b\nACGA{'A' * i}\n")
            paths.append(p)
        out = open_data_store(d / "out.sqlitedb", mode="w")
        serialiser = io_app.to_primitive() + io_app.to_json()
        app = (
            io_app.load_aligned(moltype="dna")
            + maybe_fail()
            + io_app.write_db(out, serialiser=serialiser)
        )
        raised = None
        try:
            app.apply_to(paths, logger=False)
        except Exception as e:
            raised = f"{type(e).__name__}: {e}"
        done = sorted(m.unique_id for m in out.completed)
        failed = sorted(m.unique_id for m in out.not_completed)
        print(f"raised={raised!r}")
        print(f"{len(paths)} inputs -> completed {done}, not completed {failed}")
        if raised or len(done) + len(failed) != len(paths):
            print("VIOLATION: apply_to raised because a record failed; inputs unaccounted")
            violated = True
        out.close()
    return 1 if violated else 0


if __name__ == "__main__":
    sys.exit(main())
