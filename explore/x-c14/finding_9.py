"""C14 finding 9: two inputs with DIFFERENT identifiers end up in ONE record of
a DataStoreDirectory (or one deletes the other's record), because
DataStoreDirectory rewrites identifiers that contain the store suffix / "json".
(a) "foo.fasta" (id "foo") and "foo.fasta.fasta" (id "foo.fasta"): both written
    to foo.fasta. mode="w": second silently overwrites the first (record "foo"
    then holds the content of the other input); mode="a": apply_to raises
    OSError in the middle.
(b) "a.fasta.x.fasta" (id "a.fasta.x") and "a.json.x.fasta" (id "a.json.x"),
    both failing: _write() turns ".fasta." into ".json." -> both go to
    not_completed/a.json.x.json, one not-completed record for two inputs.
(c) "foo.fasta" fails -> not_completed/foo.json. "foo.json.fasta" (id
    "foo.json") completes afterwards: write() -> drop_not_completed("foo.json")
    strips ".json" and deletes the record of input "foo". In the other order
    the record survives, i.e. the outcome depends on completion order.

Run with PYTHONPATH=<worktree>/src
"""
import pathlib
import sys
import tempfile

from cogent3 import open_data_store
from cogent3.app import io as io_app
from cogent3.app.composable import define_app
from cogent3.app.data_store import get_unique_id
from cogent3.app.typing import AlignedSeqsType


@define_app
def maybe_fail(aln: AlignedSeqsType) -> AlignedSeqsType:
    if aln.get_seq("a")[:3] == "TTT":
        raise ValueError("marked as failing")
    return aln


def run(d, tag, files, mode="w"):
    """files: list of (name, first sequence); processed in the given order"""
    ind = d / f"in_{tag}"
    ind.mkdir()
    paths = []
    for name, seq in files:
        p = ind / name
        p.write_text(f">a\n{seq}\n>b\n{seq}\n")
        paths.append(p)
    out = open_data_store(d / f"out_{tag}", suffix="fasta", mode=mode)
    app = io_app.load_aligned(moltype="dna") + maybe_fail() + io_app.write_seqs(out)
    raised = None
    try:
        app.apply_to(paths, logger=False)
    except Exception as e:
        raised = f"{type(e).__name__}: {e}"
    root = d / f"out_{tag}"
    disk = sorted(
        str(p.relative_to(root))
        for p in root.rglob("*")
        if p.is_file() and p.parent.name != "md5"
    )
    ids = [get_unique_id(n) for n, _ in files]
    print(f"[{tag}] inputs {[n for n, _ in files]} ids {ids} mode={mode}")
    print(f"      raised={raised!r}")
    print(f"      records on disk: {disk}")
    return raised, disk, root


def main():
    violated = False
    with tempfile.TemporaryDirectory() as d:
        d = pathlib.Path(d)
        # (a)
        raised, disk, root = run(d, "a_w", [("foo.fasta", "ACGTAC"), ("foo.fasta.fasta", "GGGGGG")])
        print("      content of foo.fasta:", (root / "foo.fasta").read_text().split()[1])
        violated |= len(disk) != 2
        raised, disk, root = run(d, "a_a", [("foo.fasta", "ACGTAC"), ("foo.fasta.fasta", "GGGGGG")], mode="a")
        violated |= raised is not None or len(disk) != 2
        # (b)
        raised, disk, root = run(d, "b", [("a.fasta.x.fasta", "TTTAAA"), ("a.json.x.fasta", "TTTCCC")])
        violated |= len(disk) != 2
        # (c) both orders
        raised, disk1, root = run(d, "c_fail_first", [("foo.fasta", "TTTAAA"), ("foo.json.fasta", "ACGTAC")])
        raised, disk2, root = run(d, "c_fail_last", [("foo.json.fasta", "ACGTAC"), ("foo.fasta", "TTTAAA")])
        violated |= len(disk1) != 2 or disk1 != disk2
    if violated:
        print("VIOLATION: inputs with distinct identifiers share / lose records")
    return 1 if violated else 0


if __name__ == "__main__":
    sys.exit(main())
