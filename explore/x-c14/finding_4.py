"""C14 finding 4: an in-memory input whose truth value is False is silently
dropped by _proxy_input ("if not e: continue"): no completed and no
not-completed record, although the composed app called on that input alone
writes a completed record. Shown with a zero-length alignment (len(aln) == 0);
a NotCompleted instance in the input list is dropped the same way.

Run with PYTHONPATH=<worktree>/src
"""
import pathlib
import sys
import tempfile

from cogent3 import make_aligned_seqs, open_data_store
from cogent3.app import io as io_app
from cogent3.app.composable import NotCompleted, define_app
from cogent3.app.typing import AlignedSeqsType


@define_app
def ident(aln: AlignedSeqsType) -> AlignedSeqsType:
    return aln


def main():
    violated = False
    with tempfile.TemporaryDirectory() as d:
        d = pathlib.Path(d)
        alns = [
            make_aligned_seqs(
                {"a": s, "b": s}, moltype="dna", info=dict(source=f"aln{i}.fasta")
            )
            for i, s in enumerate(["ACGT", "", "AAGG"])
        ]
        nc = NotCompleted("ERROR", "upstream", "failed earlier", source="aln3.fasta")
        inputs = alns + [nc]

        one = open_data_store(d / "one", suffix="fasta", mode="w")
        single = ident() + io_app.write_seqs(one)
        print("app on the empty alignment alone ->", repr(single(alns[1])))
        print("   store:", [m.unique_id for m in one.members])

        out = open_data_store(d / "out", suffix="fasta", mode="w")
        app = ident() + io_app.write_seqs(out)
        app.apply_to(inputs, logger=False)
        members = sorted(m.unique_id for m in out.members)
        print(f"apply_to on {len(inputs)} inputs -> {len(members)} records: {members}")
        n = len(list(ident().as_completed(inputs)))
        print(f"as_completed on {len(inputs)} inputs -> {n} results")
        if len(members) != len(inputs) or n != len(inputs):
            print("VIOLATION: inputs without any record: aln1 (empty alignment), aln3 (NotCompleted)")
            violated = True
    return 1 if violated else 0


if __name__ == "__main__":
    sys.exit(main())
