"""C14 finding 10: the writer option id_from_source is ignored by apply_to.
write_seqs(store, id_from_source=f): app(x) stores x under f(x), but
app.apply_to([...]) uses apply_to's own id_from_source default
(get_unique_id) for the "already done?" test and for the record name.
An input already written by app(x) is processed again and gets a SECOND
completed record under another identifier; identifiers differ between
"apply_to" and "the app on that input alone".

Run with PYTHONPATH=<worktree>/src
"""
import pathlib
import sys
import tempfile

from cogent3 import open_data_store
from cogent3.app import io as io_app
from cogent3.app.data_store import get_unique_id


def custom(x):
    return "run7-" + get_unique_id(x)


def main():
    violated = False
    with tempfile.TemporaryDirectory() as d:
        d = pathlib.Path(d)
        ind = d / "in"
        ind.mkdir()
        paths = []
        for i in range(3):
            p = ind / f"s{i}.fasta"
            p.write_text(f">a\nACGT{'A' * i}\n>b\nACGA{'A' * i}\n")
            paths.append(p)
        out = open_data_store(d / "out", suffix="fasta", mode="w")
        app = io_app.load_aligned(moltype="dna") + io_app.write_seqs(
            out, id_from_source=custom
        )
        m = app(paths[0])
        print("app(s0.fasta) alone      ->", m.unique_id)
        app.apply_to(paths, logger=False)
        members = sorted(x.unique_id for x in out.members)
        print(f"apply_to on 3 inputs     -> {len(members)} records {members}")
        if len(members) != 3 or any(not x.startswith("run7-") for x in members):
            print("VIOLATION: s0 has two completed records; apply_to identifiers differ from the app alone")
            violated = True
    return 1 if violated else 0


if __name__ == "__main__":
    sys.exit(main())
