"""C14 finding 5: in-memory inputs that have a ``.source`` attribute (all
cogent3 result objects: generic_result, model_result, ...) are NOT wrapped in
a source_proxy (_proxy_input: ``e if hasattr(e, "source") else source_proxy(e)``).
apply_to then asks the *result* for ``.source``. A step that returns an object
without that attribute (here a Table) makes apply_to raise AttributeError in
the middle of the run: the remaining inputs get no record at all.
The same records read from a data store (DataMember -> proxied) work.

Run with PYTHONPATH=<worktree>/src
"""
import pathlib
import sys
import tempfile
import traceback

from cogent3 import make_table, open_data_store
from cogent3.app import io as io_app
from cogent3.app.composable import define_app
from cogent3.app.result import generic_result
from cogent3.app.typing import SerialisableType, TabularType


@define_app
def to_table(r: SerialisableType) -> TabularType:
    if r["x"] < 0:
        raise ValueError("negative value")
    return make_table(header=["x"], data=[[r["x"]]])


def main():
    violated = False
    with tempfile.TemporaryDirectory() as d:
        d = pathlib.Path(d)
        ins = []
        for i in range(4):
            g = generic_result(source=f"res{i}.json")
            g["x"] = i - 1  # res0 fails, res1.. succeed
            ins.append(g)

        # (a) in-memory result objects
        out = open_data_store(d / "out_mem", suffix="tsv", mode="w")
        app = to_table() + io_app.write_tabular(out)
        try:
            app.apply_to(ins, logger=False)
        except Exception:
            print("apply_to RAISED:", traceback.format_exc().strip().splitlines()[-1])
            violated = True
        mem = sorted(m.unique_id for m in out.members)
        print(f"in-memory inputs : {len(ins)} inputs -> {len(mem)} records {mem}")

        # (b) the same objects through a data store
        store = open_data_store(d / "in.sqlitedb", mode="w")
        w = io_app.write_db(store)
        for g in ins:
            w(g)
        out2 = open_data_store(d / "out_db", suffix="tsv", mode="w")
        app2 = io_app.load_db() + to_table() + io_app.write_tabular(out2)
        app2.apply_to(store, logger=False)
        db = sorted(m.unique_id for m in out2.members)
        print(f"data store inputs: {len(ins)} inputs -> {len(db)} records {db}")
        if len(mem) != len(ins):
            violated = True
    return 1 if violated else 0


if __name__ == "__main__":
    sys.exit(main())
