"""C14 finding 8: not-completed records that do not name the source (and, for
one shipped app, not the failing step).
(a) per-record outcome "wrong type": the record written by apply_to (type
    check of the next step / of the writer, composable._validate_data_type,
    NotCompleted(..., source=data)) has source None, because the wrong-typed
    value has no source; the proxy that knows the source is not consulted.
    (The `except Exception` branch a few lines below does use result.source.)
(b) shipped take_n_seqs: NotCompleted("FALSE", self.main, "not enough
    sequences") -> origin "method", source None.

Run with PYTHONPATH=<worktree>/src
"""
import json
import pathlib
import sys
import tempfile

from cogent3 import get_app, open_data_store
from cogent3.app import io as io_app
from cogent3.app.composable import define_app
from cogent3.app.typing import AlignedSeqsType, SerialisableType


@define_app
def step(aln: AlignedSeqsType) -> SerialisableType:
    return aln.to_dict()  # wrong type for what follows


def show(store):
    bad = False
    for m in store.not_completed:
        rec = json.loads(m.read())["not_completed_construction"]
        typ, origin, msg = rec["args"]
        src = rec["kwargs"]["source"]
        print(f"   {m.unique_id}: type={typ} origin={origin!r} source={src!r} message={msg.strip().splitlines()[-1][:70]!r}")
        if src is None or origin == "method":
            bad = True
    return bad


def main():
    violated = False
    with tempfile.TemporaryDirectory() as d:
        d = pathlib.Path(d)
        ind = d / "in"
        ind.mkdir()
        (ind / "s0.fasta").write_text(">a\nACGT\n>b\nACGA\n")
        ins = open_data_store(ind, suffix="fasta")

        print("(a) wrong type detected by the next generic step")
        out = open_data_store(d / "a1", suffix="fasta", mode="w")
        app = (
            io_app.load_aligned(moltype="dna")
            + step()
            + get_app("take_named_seqs", "a")
            + io_app.write_seqs(out)
        )
        app.apply_to(ins, logger=False)
        violated |= show(out)

        print("(a) wrong type detected by the writer in apply_to")
        out = open_data_store(d / "a2", suffix="fasta", mode="w")
        app = io_app.load_aligned(moltype="dna") + step() + io_app.write_seqs(out)
        app.apply_to(ins, logger=False)
        violated |= show(out)

        print("(b) take_n_seqs(number=3) on a 2-sequence alignment")
        out = open_data_store(d / "b", suffix="fasta", mode="w")
        app = (
            io_app.load_aligned(moltype="dna")
            + get_app("take_n_seqs", number=3)
            + io_app.write_seqs(out)
        )
        app.apply_to(ins, logger=False)
        violated |= show(out)
        print(out.summary_not_completed)
    if violated:
        print("VIOLATION: not-completed record does not name its source / failing step")
    return 1 if violated else 0


if __name__ == "__main__":
    sys.exit(main())
