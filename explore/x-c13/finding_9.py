"""C13 finding 9: DataStoreDirectory accepts limit= together with a writable mode
(DataStoreSqlite refuses that). The member lists are truncated to `limit`, and since
_check_writable consults those lists, APPEND mode overwrites every record beyond the limit."""
import sys, tempfile, pathlib, warnings
warnings.filterwarnings("ignore")
from cogent3.app.data_store import DataStoreDirectory

bad = False
with tempfile.TemporaryDirectory() as d:
    p = pathlib.Path(d) / "store"
    ds = DataStoreDirectory(p, mode="w", suffix="fasta")
    for n in "abc":
        ds.write(unique_id=n, data=n * 3)
    ds = DataStoreDirectory(p, mode="a", suffix="fasta", limit=1)
    print("members seen:", [m.unique_id for m in ds.completed])
    for n in "abc":
        try:
            ds.write(unique_id=n, data="new")
            print(f"  append mode overwrote {n}: {(p / (n + '.fasta')).read_text()!r}")
            bad = True
        except IOError as e:
            print(f"  {n} refused: {e}")
print("VIOLATION" if bad else "ok")
sys.exit(1 if bad else 0)
