"""C13 finding 2: DataStoreDirectory.write_not_completed on an identifier that has a
completed record. The md5 side file <id>.txt is shared by <id>.<suffix> and
not_completed/<id>.json, so the completed record's checksum is overwritten and stays
wrong after the not-completed record is dropped again. In APPEND mode the call is
refused for unique_id="a" but NOT for unique_id="a.json" (the form every writer app uses)."""
import sys, tempfile, pathlib, warnings
warnings.filterwarnings("ignore")
from scitrack import get_text_hexdigest
from cogent3.app.data_store import DataStoreDirectory

def show(ds, tag):
    c = sorted(m.unique_id for m in ds.completed)
    nc = sorted(m.unique_id for m in ds.not_completed)
    print(f"  [{tag}] completed={c} not_completed={nc}")

bad = False
print("(a) OVERWRITE mode: write('a'); write_not_completed('a'); drop_not_completed('a')")
with tempfile.TemporaryDirectory() as d:
    p = pathlib.Path(d) / "store"
    ds = DataStoreDirectory(p, mode="w", suffix="fasta")
    ds.write(unique_id="a", data="AAA")
    want = get_text_hexdigest("AAA")
    ds.write_not_completed(unique_id="a", data="NC-a")
    show(ds, "after write_not_completed")
    print("  md5('a.fasta') =", ds.md5("a.fasta"), "expected", want)
    ds.drop_not_completed(unique_id="a")
    show(ds, "after drop")
    fresh = DataStoreDirectory(p, mode="r", suffix="fasta")
    got = fresh.md5("a.fasta")
    print("  re-opened: content", repr(fresh.read("a.fasta")), "md5", got, "expected", want)
    print("  validate:", fresh.validate().to_dict(as_tuple=False) if False else fresh.validate().array.tolist())
    bad |= got != want

print("(b) APPEND mode: completed 'a' exists; write_not_completed('a.json')")
with tempfile.TemporaryDirectory() as d:
    p = pathlib.Path(d) / "store"
    ds = DataStoreDirectory(p, mode="w", suffix="fasta")
    ds.write(unique_id="a", data="AAA")
    want = get_text_hexdigest("AAA")
    ds = DataStoreDirectory(p, mode="a", suffix="fasta")
    try:
        ds.write_not_completed(unique_id="a", data="NC")
        print("  unique_id='a' accepted")
    except IOError as e:
        print("  unique_id='a' refused:", e)
    try:
        ds.write_not_completed(unique_id="a.json", data="NC")
        print("  unique_id='a.json' accepted")
        show(ds, "append")
        print("  md5('a.fasta') =", ds.md5("a.fasta"), "expected", want)
        bad |= ds.md5("a.fasta") != want
    except IOError as e:
        print("  unique_id='a.json' refused:", e)
print("VIOLATION" if bad else "ok")
sys.exit(1 if bad else 0)
