"""C13 finding 6: identifiers whose format suffix differs from the store suffix only by
case or by a compression suffix ('a.FASTA', 'a.fasta.gz' in a 'fasta' store).
get_format_suffixes() lower-cases / strips the compression suffix, so _write believes the name
already carries the store suffix: the record is stored under a name the store's own glob
('*.fasta') never lists (gone after reopen), its checksum is written to md5/a.txt, i.e. over the
checksum of the unrelated record 'a', and APPEND mode overwrites it.
The default id_from_source (get_unique_id) returns 'a.FASTA' for a source file a.FASTA, so
write_seqs reaches this."""
import os, sys, tempfile, pathlib, warnings
warnings.filterwarnings("ignore")
from scitrack import get_text_hexdigest
from cogent3.app.data_store import DataStoreDirectory, get_unique_id

bad = False
print("get_unique_id('x/a.FASTA') =", get_unique_id("x/a.FASTA"))
for other in ("a.FASTA", "a.fasta.gz"):
    print("---", other)
    with tempfile.TemporaryDirectory() as d:
        p = pathlib.Path(d) / "store"
        ds = DataStoreDirectory(p, mode="w", suffix="fasta")
        ds.write(unique_id="a", data="AAA")
        want = get_text_hexdigest("AAA")
        ds.write(unique_id=other, data="BBB")
        print("  live     completed:", sorted(m.unique_id for m in ds.completed))
        got = ds.md5("a.fasta")
        print("  md5('a.fasta') =", got, "expected", want, "md5 dir:", sorted(os.listdir(p / "md5")))
        bad |= got != want
        ap = DataStoreDirectory(p, mode="a", suffix="fasta")
        listed = sorted(m.unique_id for m in ap.completed)
        print("  reopened completed:", listed, "files:", sorted(x.name for x in p.iterdir() if x.is_file()))
        bad |= other not in listed
        try:
            ap.write(unique_id=other, data="CCC")
            print("  append mode overwrote", other, "->", repr(ap.read(other)))
            bad = True
        except IOError as e:
            print("  append refused:", e)
print("VIOLATION" if bad else "ok")
sys.exit(1 if bad else 0)
