"""C13 finding 5: writable DataStoreDirectory with a compressed suffix ('fa.gz', the
configuration exercised by tests/test_app/test_data_store.py::test_directory_data_store_write_compressed).
Every completed record's checksum goes to the single file md5/txt, so md5() is None for all
records; after write_not_completed+drop on the same id the stale md5/<id>.txt (checksum of the
NotCompleted text) is reported as the completed record's checksum; an identifier given WITH the
store suffix is stored as '<id>.fa.gz.fa.gz'."""
import os, sys, tempfile, pathlib, warnings
warnings.filterwarnings("ignore")
from scitrack import get_text_hexdigest
from cogent3.app.data_store import DataStoreDirectory

bad = False
with tempfile.TemporaryDirectory() as d:
    p = pathlib.Path(d) / "store"
    ds = DataStoreDirectory(p, mode="w", suffix="fa.gz")
    ds.write(unique_id="a", data="AAA")
    ds.write(unique_id="ba", data="BBB")
    print("md5 dir:", sorted(os.listdir(p / "md5")))
    fresh = DataStoreDirectory(p, mode="r", suffix="fa.gz")
    for m in fresh.completed:
        want = get_text_hexdigest(m.read())
        print(f"  {m.unique_id}: content {m.read()!r} md5 {m.md5} expected {want}")
        bad |= m.md5 != want
    print("  validate:", fresh.validate().array.tolist())

    ds.write_not_completed(unique_id="a", data="NC-a")
    ds.drop_not_completed(unique_id="a")
    got, want = ds.md5("a.fa.gz"), get_text_hexdigest("AAA")
    print("after write_not_completed('a') + drop_not_completed('a'): md5('a.fa.gz') =", got, "expected", want,
          "(= md5 of the dropped NotCompleted text:", got == get_text_hexdigest("NC-a"), ")")
    bad |= got != want

    m = ds.write(unique_id="c.fa.gz", data="CCC")
    print("write(unique_id='c.fa.gz') stored as", m.unique_id)
    bad |= m.unique_id != "c.fa.gz"
print("VIOLATION" if bad else "ok")
sys.exit(1 if bad else 0)
