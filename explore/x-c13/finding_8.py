"""C13 finding 8: write_json / write_seqs / write_tabular on a DataStoreSqlite. The writers
store a NotCompleted under '<id>.json' but the completed result under '<id>'; the sqlite store
does no suffix normalisation, so the completed write does not retire the not-completed record
(write_db, which passes the bare id both times, does)."""
import sys, tempfile, pathlib, warnings
warnings.filterwarnings("ignore")
from cogent3 import get_app, make_aligned_seqs, open_data_store
from cogent3.app.composable import NotCompleted

aln = make_aligned_seqs({"s1": "ACGT", "s2": "ACGA"}, moltype="dna")
aln.info.source = "/x/y/a.fasta"
nc = NotCompleted("ERROR", "me", "failed", source="/x/y/a.fasta")
bad = False
for name in ("write_json", "write_seqs", "write_db"):
    with tempfile.TemporaryDirectory() as d:
        ds = open_data_store(pathlib.Path(d) / "out.sqlitedb", mode="w")
        w = get_app(name, data_store=ds)
        w.main(nc)    # what apply_to() does with a failed input
        w.main(aln)   # the same input succeeds on the re-run
        c = [m.unique_id for m in ds.completed]
        n = [m.unique_id for m in ds.not_completed]
        print(f"{name:11s} completed={c} not_completed={n}")
        if name != "write_db":
            bad |= bool(n)
        ds.close()
print("VIOLATION" if bad else "ok")
sys.exit(1 if bad else 0)
