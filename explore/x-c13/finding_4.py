"""C13 finding 4: an identifier that contains '.<store suffix>.' in the middle
(e.g. 'a.fasta.b', of which 'a.fasta' / 'a' are prefixes). write_not_completed rewrites
EVERY '.fasta' followed by '.', giving not_completed/a.json.b.json; the completed write and
drop_not_completed(unique_id=...) look for a.fasta.b.json, so the record is never retired."""
import sys, tempfile, pathlib, warnings
warnings.filterwarnings("ignore")
from cogent3.app.data_store import DataStoreDirectory

bad = False
with tempfile.TemporaryDirectory() as d:
    p = pathlib.Path(d) / "store"
    ds = DataStoreDirectory(p, mode="w", suffix="fasta")
    uid = "a.fasta.b"
    m = ds.write_not_completed(unique_id=uid, data="NC")
    print("write_not_completed ->", m.unique_id)
    bad |= m.unique_id != "not_completed/a.fasta.b.json"
    ds.drop_not_completed(unique_id=uid)
    print("after drop_not_completed(unique_id):", [x.unique_id for x in ds.not_completed])
    bad |= len(ds.not_completed) != 0
    m = ds.write(unique_id=uid, data="DONE")
    fresh = DataStoreDirectory(p, mode="r", suffix="fasta")
    c = [x.unique_id for x in fresh.completed]
    nc = [x.unique_id for x in fresh.not_completed]
    print("after write: completed", c, "not_completed", nc)
    bad |= len(nc) != 0
    # same rewriting for a log name
    ds.write_log(unique_id="x.fasta.log", data="L")
    print("write_log('x.fasta.log') stored as", [str(x.unique_id) for x in ds.logs])
print("VIOLATION" if bad else "ok")
sys.exit(1 if bad else 0)
