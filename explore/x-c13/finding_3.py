"""C13 finding 3: a DataStoreDirectory opened in APPEND mode overwrites an existing
not-completed record and an existing log record (DataStoreSqlite refuses the former).
__contains__ only ever matches completed members, so _check_writable cannot see them."""
import sys, tempfile, pathlib, warnings
warnings.filterwarnings("ignore")
from cogent3.app.data_store import DataStoreDirectory
from cogent3.app.sqlite_data_store import DataStoreSqlite

bad = False
with tempfile.TemporaryDirectory() as d:
    p = pathlib.Path(d) / "store"
    ds = DataStoreDirectory(p, mode="a", suffix="fasta")
    ds.write_not_completed(unique_id="a", data="NC-1")
    ds.write_log(unique_id="run.log", data="LOG-1")
    ds = DataStoreDirectory(p, mode="a", suffix="fasta")  # close + reopen(a)
    for uid in ("a", "a.json"):
        try:
            ds.write_not_completed(unique_id=uid, data=f"NC-2-{uid}")
            got = ds.read("not_completed/a.json")
            print(f"write_not_completed({uid!r}) accepted in append mode, content now {got!r}")
            bad |= got != "NC-1"
        except IOError as e:
            print(f"write_not_completed({uid!r}) refused:", e)
    try:
        ds.write_log(unique_id="run.log", data="LOG-2")
        got = ds.read("logs/run.log")
        print(f"write_log('run.log') accepted in append mode, content now {got!r}")
        bad |= got != "LOG-1"
    except IOError as e:
        print("write_log refused:", e)

    q = pathlib.Path(d) / "s.sqlitedb"
    sq = DataStoreSqlite(q, mode="a")
    sq.write_not_completed(unique_id="a", data="NC-1")
    try:
        sq.write_not_completed(unique_id="a", data="NC-2")
        print("sqlite accepted")
    except IOError as e:
        print("control, sqlite refuses the same history:", e)
    sq.close()
print("VIOLATION" if bad else "ok")
sys.exit(1 if bad else 0)
