"""C13 finding 7: DataStoreSqlite keeps ONE log row per session: a second write_log with a
different name renames/replaces the first log record; a log written under an existing name in a
later session yields two members with the same id, and the later content cannot be read."""
import sys, tempfile, pathlib, warnings
warnings.filterwarnings("ignore")
from cogent3.app.sqlite_data_store import DataStoreSqlite
from cogent3.app.data_store import DataStoreDirectory

bad = False
with tempfile.TemporaryDirectory() as d:
    ds = DataStoreSqlite(pathlib.Path(d) / "s.sqlitedb", mode="w")
    ds.write_log(unique_id="x.log", data="L1")
    ds.write_log(unique_id="y.log", data="L2")
    logs = [str(m.unique_id) for m in ds.logs]
    print("sqlite after write_log(x.log), write_log(y.log):", logs)
    bad |= "logs/x.log" not in logs
    ds.unlock(); ds.close()
    ds = DataStoreSqlite(pathlib.Path(d) / "s.sqlitedb", mode="a")
    ds.write_log(unique_id="y.log", data="L3")
    print("reopen(a), write_log(y.log,'L3'):", [(str(m.unique_id), m.read()) for m in ds.logs])
    bad |= "L3" not in [m.read() for m in ds.logs]
    ds.close()
    dd = DataStoreDirectory(pathlib.Path(d) / "dir", mode="w", suffix="fasta")
    dd.write_log(unique_id="x.log", data="L1")
    dd.write_log(unique_id="y.log", data="L2")
    print("control, directory store:", sorted(str(m.unique_id) for m in dd.logs))
print("VIOLATION" if bad else "ok")
sys.exit(1 if bad else 0)
