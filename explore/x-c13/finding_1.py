"""C13 finding 1: DataStoreDirectory(source, mode="r") (mode given as the string the
signature and the test-suite allow) creates sub-directories in an existing store and
creates a missing source directory: read-only mode mutates."""
import os, sys, tempfile, pathlib, warnings
warnings.filterwarnings("ignore")
from cogent3.app.data_store import DataStoreDirectory, READONLY

def tree(p):
    out = []
    for r, ds, fs in os.walk(p):
        out += [os.path.relpath(os.path.join(r, x), p) + "/" for x in ds]
        out += [os.path.relpath(os.path.join(r, x), p) for x in fs]
    return sorted(out)

bad = False
with tempfile.TemporaryDirectory() as d:
    store = pathlib.Path(d) / "store"
    store.mkdir()
    (store / "a.fasta").write_text(">a\nACGT\n")
    before = tree(store)
    ds = DataStoreDirectory(store, mode="r", suffix="fasta")
    assert ds.mode is READONLY
    after = tree(store)
    print("existing store before:", before)
    print("existing store after :", after)
    bad |= before != after

    missing = pathlib.Path(d) / "does_not_exist"
    try:
        DataStoreDirectory(missing, mode="r", suffix="fasta")
        print("opening a missing directory read-only raised nothing; now exists:", missing.exists(), tree(missing) if missing.exists() else "")
        bad |= missing.exists()
    except IOError as e:
        print("missing directory refused:", e)

    # control: the enum spelling behaves
    store2 = pathlib.Path(d) / "store2"
    store2.mkdir()
    DataStoreDirectory(store2, mode=READONLY, suffix="fasta")
    print("control Mode.r:", tree(store2))
print("VIOLATION" if bad else "ok")
sys.exit(1 if bad else 0)
