"""OSError at each fs op in apply_to (dir store); resume with same app object; compare"""
import sys, warnings, hashlib
warnings.simplefilter("ignore")
from harness import *
from cogent3 import get_app, open_data_store
names = ["s1","s2","s3"]
def make_inputs(d):
    ind = Path(d)/"in"; ind.mkdir()
    for i, n in enumerate(names):
        seq = "ACGTACGTAC" if i != 1 else "ACG"
        (ind/f"{n}.fasta").write_text(f">a\n{seq}\n>b\n{seq}\n")
    return ind
def mkapp(outd, mode="a"):
    out = open_data_store(outd, suffix="fasta", mode=mode)
    return get_app("load_aligned", format="fasta", moltype="dna") + get_app("min_length", 5) + get_app("write_seqs", data_store=out)
def snapshot(outd):
    outd = Path(outd); snap = {}
    for p in sorted(outd.rglob("*")):
        rel = str(p.relative_to(outd))
        if rel.startswith("logs/"): continue
        snap[rel] = hashlib.md5(p.read_bytes()).hexdigest()[:8] if p.is_file() else None
    return snap
install(); INJ.scope = "c19x"
logger = False if "-nolog" in sys.argv else None
with tempfile.TemporaryDirectory(prefix="c19x") as d:
    ind = make_inputs(d)
    app = mkapp(Path(d)/"out")
    INJ.__init__(); INJ.active = True
    app.apply_to(open_data_store(ind, suffix="fasta"), logger=logger)
    INJ.active = False
    ops = list(INJ.log); nops = INJ.n
    ref = snapshot(Path(d)/"out")
print("ops", nops, "ref", ref)
for same in (True, False):
  for i in range(nops):
    for action in ("oserror",) + (("partial_oserror",) if ops[i][1] == "write" else ()):
      with tempfile.TemporaryDirectory(prefix="c19x") as d:
        ind = make_inputs(d); outd = Path(d)/"out"
        app = mkapp(outd)
        INJ.__init__(); INJ.active = True; INJ.target = i; INJ.action = action
        err = None
        try:
            app.apply_to(open_data_store(ind, suffix="fasta"), logger=logger)
        except Exception as e:
            err = repr(e)[:60]
        INJ.active = False
        mid = snapshot(outd)
        stray = [p.name for p in Path(d).glob("*") if p.name not in ("in", "out")]
        if not same:
            app = mkapp(outd)
        err2 = None
        try:
            app.apply_to(open_data_store(ind, suffix="fasta"), logger=logger)
        except Exception as e:
            err2 = repr(e)[:100]
        fin = snapshot(outd)
        flags = []
        if err is None: flags.append("NO ERROR RAISED in run1")
        if err2: flags.append(f"RESUME RAISED {err2}")
        if fin != ref:
            flags.append(f"DIFF extra={ {k:v for k,v in fin.items() if ref.get(k,0)!=v} } missing={[k for k in ref if k not in fin]}")
        tmpleft = [k for k in mid if k.startswith("tmp")]
        if tmpleft: flags.append(f"tmp left after handled failure {tmpleft}")
        print("same" if same else "new", i, action, ops[i][1], ops[i][2][-50:], "| run1:", err, "| stray", stray, "|", flags or "ok")
