import sys, warnings
warnings.simplefilter("ignore")
from harness import *
from cogent3 import make_aligned_seqs, make_tree, make_table, make_unaligned_seqs
from cogent3.util.dict_array import DictArrayTemplate
from cogent3.phylo.tree_collection import ScoredTreeCollection
aln = make_aligned_seqs({"a":"ACGT","b":"ACGA"}, moltype="dna")
tree = make_tree("(a:0.1,b:0.2,c:0.3);")
table = make_table(header=["x","y"], data=[[1,2],[3,4]], title="T", legend="L")
darr = DictArrayTemplate(["a","b"],["c","d"]).wrap([[1,2],[3,4]])
stc = ScoredTreeCollection([(1.0, tree), (2.0, tree)])
install()
cases = []
for sfx in ("", ".gz", ".bz2", ".zip"):
    cases += [
      ("aln", lambda p: aln.write(p), "x.fasta"+sfx),
      ("aln-json", lambda p: aln.write(p), "x.json"+sfx),
      ("tree", lambda p: tree.write(str(p)), "x.nwk"+sfx),
      ("tree-json", lambda p: tree.write(str(p)), "x.json"+sfx),
      ("table", lambda p: table.write(p), "x.tsv"+sfx),
      ("table-pickle", lambda p: table.write(p), "x.pickle"+sfx),
      ("table-json", lambda p: table.write(p), "x.json"+sfx),
      ("table-md", lambda p: table.write(p), "x.md"+sfx),
      ("darr", lambda p: darr.write(p), "x.tsv"+sfx),
      ("stc", lambda p: stc.write(p), "x.trees"+sfx),
    ]
verbose = "-v" in sys.argv
for label, fn, name in cases:
    for pre in (False, True):
        v = run_case(label, fn, name, pre, verbose=verbose and not pre)
        print(f"== {label} {name} pre={pre}: {len(v)} issues")
        for x in v: print("   ", x)
