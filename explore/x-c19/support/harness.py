"""fault injection harness: counts file-system call boundaries, injects OSError or kills (os._exit in forked child)"""
import builtins, io, os, shutil, errno, sys, bz2, gzip, zipfile, tempfile, traceback
from pathlib import Path

class Kill(BaseException): pass

class Injector:
    def __init__(self):
        self.n = 0
        self.log = []
        self.target = None   # op index at which to inject
        self.action = None   # 'oserror' | 'exit' | 'partial_oserror' | 'partial_exit'
        self.active = False
        self.fired = False
        self.scope = getattr(self, "scope", None)
    def hit(self, name, detail=""):
        """returns True if should inject at this op"""
        if not self.active:
            return False
        if self.scope and "/" in detail and self.scope not in detail:
            return False
        i = self.n
        self.n += 1
        self.log.append((i, name, detail))
        if self.target is not None and i == self.target and not self.fired:
            self.fired = True
            return True
        return False
    def fail(self, name):
        if self.action in ("exit", "partial_exit"):
            os._exit(99)
        raise OSError(errno.ENOSPC, f"injected at {name}")

INJ = Injector()

class FileProxy:
    def __init__(self, f, name):
        object.__setattr__(self, "_f", f)
        object.__setattr__(self, "_name", name)
    def __getattr__(self, k):
        return getattr(self._f, k)
    def __setattr__(self, k, v):
        setattr(self._f, k, v)
    def __enter__(self):
        self._f.__enter__(); return self
    def __exit__(self, *a):
        self.close()
    def __iter__(self): return iter(self._f)
    def write(self, data):
        if INJ.hit("write", f"{self._name} {len(data)}"):
            if INJ.action.startswith("partial"):
                self._f.write(data[: len(data)//2]); 
                try: self._f.flush()
                except Exception: pass
            INJ.fail("write")
        return self._f.write(data)
    def writelines(self, lines):
        for l in lines: self.write(l)
    def flush(self):
        if INJ.hit("flush", self._name): INJ.fail("flush")
        return self._f.flush()
    def close(self):
        if self._f.closed:
            return self._f.close()
        if INJ.hit("close", self._name):
            if INJ.action in ("oserror",):
                # a failing close still closes the descriptor, buffered data lost
                try:
                    self._f.close()
                except Exception: pass
            INJ.fail("close")
        return self._f.close()

_orig = {}
def _wrap_open(orig):
    def _open(file, mode="r", *a, **kw):
        writing = any(c in mode for c in "wax+")
        if writing and isinstance(file, (str, bytes, os.PathLike)):
            if INJ.hit("open", f"{file} {mode}"): INJ.fail("open")
            return FileProxy(orig(file, mode, *a, **kw), str(file))
        return orig(file, mode, *a, **kw)
    return _open

def _wrap_simple(name, orig):
    def f(*a, **kw):
        if INJ.hit(name, " ".join(str(x) for x in a)[:200]): INJ.fail(name)
        return orig(*a, **kw)
    return f

def install():
    o = builtins.open
    _orig["open"] = o
    w = _wrap_open(o)
    builtins.open = w
    io.open = w
    bz2._builtin_open = w
    for name in ("mkdir", "replace", "rename", "unlink", "rmdir", "remove"):
        _orig[name] = getattr(os, name)
        setattr(os, name, _wrap_simple(name, getattr(os, name)))
    _orig["copyfile"] = shutil.copyfile
    shutil.copyfile = _wrap_simple("copyfile", shutil.copyfile)

def listing(d):
    d = Path(d)
    return sorted(str(p.relative_to(d)) for p in d.rglob("*"))

def logical(path):
    """logical content of path, or ('CORRUPT', err)"""
    path = Path(path)
    if not path.exists():
        return None
    raw = path.read_bytes()
    try:
        if path.suffix == ".gz":
            return gzip.decompress(raw)
        if path.suffix == ".bz2":
            return bz2.decompress(raw)
        if path.suffix == ".zip":
            with zipfile.ZipFile(path) as z:
                names = z.namelist()
                return tuple((n if not any(c.isdigit() for c in n) else "<tmpname>", z.read(n)) for n in names)
    except Exception as e:
        return ("CORRUPT", repr(e)[:80], raw[:40])
    return raw

def make_old(path):
    path = Path(path)
    data = b"OLD CONTENT\n"
    if path.suffix == ".gz":
        path.write_bytes(gzip.compress(data))
    elif path.suffix == ".bz2":
        path.write_bytes(bz2.compress(data))
    elif path.suffix == ".zip":
        with zipfile.ZipFile(path, "w") as z:
            z.writestr("old.txt", data)
    else:
        path.write_bytes(data)

def run_case(label, writer, name, pre, verbose=False):
    """writer(path) performs the write. Returns list of violation strings"""
    viol = []
    # reference run
    with tempfile.TemporaryDirectory() as d:
        p = Path(d) / name
        if pre: make_old(p)
        old = logical(p)
        INJ.__init__(); INJ.active = True
        try:
            writer(p)
        except Exception as e:
            INJ.active = False
            return [f"{label} {name}: reference run raised {e!r}"]
        INJ.active = False
        nops = INJ.n
        ops = list(INJ.log)
        new = logical(p)
        ref_listing = listing(d)
    if verbose:
        for o in ops: print("   op", o)
    for i in range(nops):
        opname = ops[i][1]
        actions = ["oserror", "exit"]
        if opname == "write":
            actions += ["partial_oserror", "partial_exit"]
        for action in actions:
            with tempfile.TemporaryDirectory() as d:
                p = Path(d) / name
                if pre: make_old(p)
                before = listing(d)
                if action.endswith("exit"):
                    pid = os.fork()
                    if pid == 0:
                        INJ.__init__(); INJ.active = True; INJ.target = i; INJ.action = action
                        try:
                            writer(p)
                        except BaseException:
                            os._exit(3)
                        os._exit(0)
                    _, status = os.waitpid(pid, 0)
                    code = os.waitstatus_to_exitcode(status)
                    got = logical(p)
                    if got != old and got != new:
                        viol.append(f"{label} {name} pre={pre} KILL at op {i} {ops[i][1:]} ({action}): dest={got!r:.150} old={old!r:.40} listing={listing(d)}")
                else:
                    INJ.__init__(); INJ.active = True; INJ.target = i; INJ.action = action
                    err = None
                    try:
                        writer(p)
                    except Exception as e:
                        err = e
                    INJ.active = False
                    got = logical(p)
                    after = listing(d)
                    if err is not None:
                        if got != old:
                            viol.append(f"{label} {name} pre={pre} {action} at op {i} {ops[i][1:]}: raised {err!r:.80} but dest changed: {got!r:.100}")
                        if after != before:
                            viol.append(f"{label} {name} pre={pre} {action} at op {i} {ops[i][1:]}: raised {err!r:.80}; leftovers: {sorted(set(after)-set(before))} missing: {sorted(set(before)-set(after))}")
                    else:
                        if got != new:
                            viol.append(f"{label} {name} pre={pre} {action} at op {i} {ops[i][1:]}: NO exception but dest={got!r:.100} (expected new)")
                        if after != ref_listing:
                            viol.append(f"{label} {name} pre={pre} {action} at op {i} {ops[i][1:]}: NO exception; listing {after}")
    return viol
