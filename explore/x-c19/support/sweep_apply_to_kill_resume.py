"""interrupt apply_to at each fs op (kill) and resume; compare final store to uninterrupted"""
import sys, warnings, hashlib, shutil
warnings.simplefilter("ignore")
from harness import *
from cogent3 import get_app, open_data_store
from cogent3.app.composable import define_app
from cogent3.app.typing import AlignedSeqsType

names = sys.argv[1].split(",") if len(sys.argv) > 1 else ["s1","s2","s3","s4"]
def make_inputs(d):
    ind = Path(d)/"in"; ind.mkdir()
    for i, n in enumerate(names):
        seq = "ACGTACGTAC" if i != 1 else "ACG"   # second one too short -> NotCompleted
        (ind/f"{n}.fasta").write_text(f">a\n{seq}\n>b\n{seq}\n")
    return ind

CALLS = []
@define_app
class tracker:
    def main(self, aln: AlignedSeqsType) -> AlignedSeqsType:
        CALLS.append(aln.info.source)
        return aln

def run(ind, outd, mode="a", logger=False):
    CALLS.clear()
    ins = open_data_store(ind, suffix="fasta")
    out = open_data_store(outd, suffix="fasta", mode=mode)
    app = get_app("load_aligned", format="fasta", moltype="dna") + tracker() + get_app("min_length", 5) + get_app("write_seqs", data_store=out)
    app.apply_to(ins, logger=logger, show_progress=False)
    return [Path(c).name for c in CALLS]

def snapshot(outd, include_tmp=True):
    outd = Path(outd)
    snap = {}
    for p in sorted(outd.rglob("*")):
        rel = str(p.relative_to(outd))
        if rel.startswith("logs"): continue
        if p.is_file():
            snap[rel] = hashlib.md5(p.read_bytes()).hexdigest()[:8]
        else:
            snap[rel + "/"] = None
    return snap

def members(outd):
    ds = open_data_store(outd, suffix="fasta")
    return sorted(m.unique_id for m in ds.completed), sorted(m.unique_id for m in ds.not_completed)

install(); INJ.scope = "c19x"
with tempfile.TemporaryDirectory(prefix="c19x") as d:
    ind = make_inputs(d)
    INJ.__init__(); INJ.active = True
    run(ind, Path(d)/"out")
    INJ.active = False
    ops = list(INJ.log); nops = INJ.n
    ref = snapshot(Path(d)/"out"); refm = members(Path(d)/"out")
print("ops", nops)
if "-v" in sys.argv:
    for o in ops: print(o)
print("reference", ref, refm)
for i in range(nops):
    with tempfile.TemporaryDirectory(prefix="c19x") as d:
        ind = make_inputs(d)
        outd = Path(d)/"out"
        pid = os.fork()
        if pid == 0:
            INJ.__init__(); INJ.active = True; INJ.target = i; INJ.action = "exit"
            try:
                run(ind, outd)
            except BaseException as e:
                os._exit(3)
            os._exit(0)
        _, st = os.waitpid(pid, 0)
        mid = snapshot(outd) if outd.exists() else None
        try:
            calls = run(ind, outd)
            err = None
        except Exception as e:
            err = repr(e); calls = None
        fin = snapshot(outd); finm = members(outd)
        flag = []
        if err: flag.append(f"RESUME RAISED {err}")
        if finm != refm: flag.append(f"MEMBERS DIFFER {finm}")
        if fin != ref:
            extra = {k: v for k, v in fin.items() if ref.get(k, 0) != v}
            missing = [k for k in ref if k not in fin]
            flag.append(f"SNAP DIFF extra={extra} missing={missing}")
        print(i, ops[i][1], ops[i][2][-60:], "| resume processed", calls, "|", flag or "ok")
