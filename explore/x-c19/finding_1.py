"""C19 finding 1: a re-run (resume) of apply_to on a directory data store re-processes and silently
overwrites COMPLETED records whose identifier ends in ".log" or ".json" (input files such as
"run.log.fasta" / "x.json.fasta"), although the store is in append mode.

Run with PYTHONPATH=<worktree>/src. Exits 1 if the violation shows.
"""
import sys
import tempfile
import warnings
from pathlib import Path

warnings.simplefilter("ignore")

from cogent3 import get_app, open_data_store
from cogent3.app.composable import define_app
from cogent3.app.typing import AlignedSeqsType

CALLS = []


@define_app
class tracker:
    def main(self, aln: AlignedSeqsType) -> AlignedSeqsType:
        CALLS.append(Path(aln.info.source).name)
        return aln


def run(ind, outd):
    CALLS.clear()
    out = open_data_store(outd, suffix="fasta", mode="a")
    app = (
        get_app("load_aligned", format="fasta", moltype="dna")
        + tracker()
        + get_app("write_seqs", data_store=out)
    )
    app.apply_to(open_data_store(ind, suffix="fasta"), logger=False, show_progress=False)
    return sorted(CALLS)


bad = False
with tempfile.TemporaryDirectory() as d:
    ind = Path(d) / "in"
    ind.mkdir()
    for n in ("s1", "s2", "run.log", "x.json"):
        (ind / f"{n}.fasta").write_text(">a\nACGTACGTAC\n>b\nACGTACGTAC\n")
    outd = Path(d) / "out"
    first = run(ind, outd)
    print("run 1 (complete, uninterrupted) processed:", first)
    print("store:", sorted(p.name for p in outd.glob("*.fasta")))
    mt = {p.name: p.stat().st_mtime_ns for p in outd.glob("*.fasta")}
    second = run(ind, outd)
    print("run 2 (nothing is missing) processed:", second)
    rewritten = [n for n, t in mt.items() if (outd / n).stat().st_mtime_ns != t]
    print("completed records rewritten by run 2 (append mode):", rewritten)
    if second:
        bad = True

    # the same through the store API: append mode must refuse to overwrite
    ds = open_data_store(Path(d) / "out2", suffix="fasta", mode="a")
    ds.write(unique_id="plain", data=">a\nA\n")
    ds.write(unique_id="run.log", data=">a\nA\n")
    print("'plain' in store:", "plain" in ds, "| 'run.log' in store:", "run.log" in ds)
    for uid in ("plain", "run.log"):
        try:
            ds.write(unique_id=uid, data=">a\nCHANGED\n")
            print(f"second write of {uid!r} in append mode: ACCEPTED, content now",
                  repr((Path(d) / "out2" / f"{uid}.fasta").read_text()))
            bad = True
        except IOError as e:
            print(f"second write of {uid!r} in append mode: refused ({e})")

print("VIOLATION" if bad else "no violation")
sys.exit(1 if bad else 0)
