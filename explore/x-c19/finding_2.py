"""C19 finding 2: an OSError raised at the last file-system call of a write (the rmtree of the
temporary directory, AFTER the temp file was renamed over the destination) makes the writer raise,
although the destination already holds the new content. The caller sees a failed write whose
"previous content" is gone.

The fault is injected for ONE call of shutil.rmtree (as seen from cogent3.util.io).
Run with PYTHONPATH=<worktree>/src. Exits 1 if the violation shows.
"""
import errno
import shutil
import sys
import tempfile
import warnings
from pathlib import Path

warnings.simplefilter("ignore")

import cogent3.util.io as c3io
from cogent3 import make_aligned_seqs, make_table, make_tree
from cogent3.util.dict_array import DictArrayTemplate

aln = make_aligned_seqs({"a": "ACGT", "b": "ACGA"}, moltype="dna")
tree = make_tree("(a:0.1,b:0.2,c:0.3);")
table = make_table(header=["x", "y"], data=[[1, 2], [3, 4]])
darr = DictArrayTemplate(["a", "b"], ["c", "d"]).wrap([[1, 2], [3, 4]])

real_rmtree = shutil.rmtree


class OneShot:
    def __init__(self):
        self.fired = False

    def __call__(self, *a, **kw):
        if not self.fired:
            self.fired = True
            raise OSError(errno.EBUSY, "injected: cannot remove temporary directory")
        return real_rmtree(*a, **kw)


cases = [
    ("alignment -> x.fasta", lambda p: aln.write(p), "x.fasta"),
    ("alignment -> x.fasta.gz", lambda p: aln.write(p), "x.fasta.gz"),
    ("tree -> x.nwk", lambda p: tree.write(str(p)), "x.nwk"),
    ("table -> x.tsv", lambda p: table.write(p), "x.tsv"),
    ("dict-array -> x.tsv", lambda p: darr.write(p), "x.tsv"),
    ("alignment -> x.json.zip", lambda p: aln.write(p), "x.json.zip"),
]
bad = False
for label, fn, name in cases:
    with tempfile.TemporaryDirectory() as d:
        p = Path(d) / name
        old = b"OLD CONTENT\n"
        p.write_bytes(old)
        # one-shot fault at the first rmtree issued by atomic_write, a succesful write
        # issues exactly one (zip: the outermost is the last one, so skip the inner one)
        shot = OneShot()
        if name.endswith(".zip"):
            calls = {"n": 0}

            def patched(*a, **kw):
                calls["n"] += 1
                if calls["n"] == 2:
                    raise OSError(errno.EBUSY, "injected: cannot remove temporary directory")
                return real_rmtree(*a, **kw)

            c3io.shutil.rmtree = patched
        else:
            c3io.shutil.rmtree = shot
        err = None
        try:
            fn(p)
        except OSError as e:
            err = e
        finally:
            c3io.shutil.rmtree = real_rmtree
        now = p.read_bytes()
        left = sorted(x.name for x in Path(d).iterdir())
        changed = now != old
        print(f"{label}: raised={err!r}; destination changed={changed}; directory={left}")
        if err is not None and changed:
            bad = True

print("VIOLATION: the write raised OSError but the previous content was replaced" if bad else "no violation")
sys.exit(1 if bad else 0)
