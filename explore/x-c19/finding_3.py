"""C19 finding 3: Table.write to a zip (or bz2) target returns normally but never touches the
path: the previous content stays (or the path stays absent) and the data go to "<path>.gz".

Run with PYTHONPATH=<worktree>/src. Exits 1 if the violation shows.
"""
import gzip
import sys
import tempfile
import warnings
from pathlib import Path

warnings.simplefilter("ignore")
from cogent3 import make_table

table = make_table(header=["x", "y"], data=[[1, 2], [3, 4]])
bad = False
for name in ("x.tsv.zip", "x.tsv.bz2", "x.csv.zip"):
    for pre in (False, True):
        with tempfile.TemporaryDirectory() as d:
            p = Path(d) / name
            if pre:
                p.write_bytes(b"OLD CONTENT\n")
            err = None
            try:
                table.write(p)
            except Exception as e:  # a refusal would be fine
                err = e
            listing = sorted(x.name for x in Path(d).iterdir())
            content = p.read_bytes() if p.exists() else None
            print(f"table.write({name!r}) pre-existing={pre}: raised={err!r}; "
                  f"path content={content!r}; directory={listing}")
            other = Path(f"{p}.gz")
            if other.exists():
                print("    ", other.name, "holds", gzip.decompress(other.read_bytes())[:20], "...")
            if err is None and content in (None, b"OLD CONTENT\n"):
                bad = True
print("VIOLATION: write reported success, the path does not hold the new content" if bad else "no violation")
sys.exit(1 if bad else 0)
