"""C19 finding 4 (low confidence, looks intended): resuming an interrupted apply_to on a DIRECTORY
data store processes inputs whose outcome (a NotCompleted record) is already in the store, i.e.
more than what is missing. The sqlite store skips them. The final stores are equal.

Run with PYTHONPATH=<worktree>/src. Exits 1 if the violation shows.
"""
import sys
import tempfile
import warnings
from pathlib import Path

warnings.simplefilter("ignore")
from cogent3 import get_app, open_data_store
from cogent3.app.composable import define_app
from cogent3.app.typing import AlignedSeqsType

STATE = {"n": 0, "stop_at": None}
CALLS = []


@define_app
class tracker:
    def main(self, aln: AlignedSeqsType) -> AlignedSeqsType:
        STATE["n"] += 1
        if STATE["stop_at"] == STATE["n"]:
            raise KeyboardInterrupt  # the interruption
        CALLS.append(Path(aln.info.source).name)
        return aln


def make_app(out, kind):
    w = get_app("write_seqs", data_store=out) if kind == "dir" else get_app("write_db", data_store=out)
    return get_app("load_aligned", format="fasta", moltype="dna") + tracker() + get_app("min_length", 5) + w


bad = False
for kind in ("dir", "sqlite"):
    with tempfile.TemporaryDirectory() as d:
        ind = Path(d) / "in"
        ind.mkdir()
        names = ["s1", "s2", "s3", "s4", "s5"]
        for n in names:
            seq = "ACG" if n in ("s2", "s3") else "ACGTACGTAC"  # s2, s3 -> NotCompleted (too short)
            (ind / f"{n}.fasta").write_text(f">a\n{seq}\n>b\n{seq}\n")
        ins = open_data_store(ind, suffix="fasta")

        def out_store():
            if kind == "dir":
                return open_data_store(Path(d) / "out", suffix="fasta", mode="a")
            return open_data_store(Path(d) / "out.sqlitedb", mode="a")

        out = out_store()
        STATE.update(n=0, stop_at=len(names))  # interrupt while the LAST input is processed
        CALLS.clear()
        try:
            make_app(out, kind).apply_to(ins, logger=False, show_progress=False)
        except KeyboardInterrupt:
            pass
        done = sorted(m.unique_id for m in out.completed)
        nc = sorted(str(m.unique_id) for m in out.not_completed)
        recorded = {Path(x).name.split(".")[0] for x in done + nc}
        missing = sorted(set(names) - recorded)
        if kind != "dir":
            out.close()
        out = out_store()
        STATE.update(n=0, stop_at=None)
        CALLS.clear()
        make_app(out, kind).apply_to(ins, logger=False, show_progress=False)
        resumed = sorted(c.split(".")[0] for c in CALLS)
        print(f"{kind}: after interruption completed={done} not_completed={nc}; missing={missing}; "
              f"resume processed={resumed}")
        if resumed != missing:
            print(f"   -> {kind}: resume processed more than what was missing: {sorted(set(resumed) - set(missing))}")
            bad = True
        if kind != "dir":
            out.close()
print("VIOLATION (literal reading)" if bad else "no violation")
sys.exit(1 if bad else 0)
